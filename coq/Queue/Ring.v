(** Model of /repo/internal/queues/ring.go (RingQueue) as it is.

    Go state: [content.buffer] (slots, nil = empty), [content.head], [content.tail], [content.mod]
    (always the buffer's length: both constructors set them together) and the separately kept [len].
    Slots are [option A]: [None] is Go's nil, a pushed item [x] is [Some x].
    Cursors are positions inside the buffer, hence [nat] bounded by [length rbuf]; the counts that
    come from a caller ([New]'s size, [PopMany]'s count) are [Z] (Go int64, may be negative).
    The mutex is not modelled (sequential semantics; linearizability is assumption M4) except for one
    fact: both panics happen while the mutex is held and nothing unlocks it, so a panicked queue is
    unusable - [ring_step] returns no successor state then. *)
From Coq Require Import List Arith ZArith Bool.
Import ListNotations.

Set Implicit Arguments.

Section Ring.
Context {A : Type}.

Record ring : Type := mkRing {
  rbuf : list (option A);
  rhead : nat;
  rtail : nat;
  rlen : nat;
}.

Definition rmod (r : ring) : nat := length (rbuf r).

(** [l[n] = x] (no effect when [n] is out of range; the model never does that under the invariant) *)
Fixpoint upd {B} (n : nat) (x : B) (l : list B) : list B :=
  match l, n with
  | [], _ => []
  | _ :: t, O => x :: t
  | h :: t, S n' => h :: upd n' x t
  end.

(** the slot at position [p] *)
Definition slot (b : list (option A)) (p : nat) : option A := nth p b None.

Inductive panic : Type :=
| PDivZero      (* "integer divide by zero": [% c.mod] with mod = 0 *)
| PMakeSlice.   (* "makeslice: len out of range": make with a negative length *)

(** [New(initialSize)]: [make([]interface{}, n)] panics for n < 0 *)
Definition ring_new (n : Z) : option ring :=
  if (n <? 0)%Z then None
  else Some {| rbuf := repeat None (Z.to_nat n); rhead := 0; rtail := 0; rlen := 0 |}.

(** the rotated copy of [Push]'s growth path: newBuff[i] = buffer[(tail+i) % mod] for i < mod,
    the upper half stays nil *)
Definition grow_copy (b : list (option A)) (t : nat) : list (option A) :=
  let m := length b in
  map (fun i => slot b ((t + i) mod m)) (seq 0 m) ++ repeat None m.

Definition ring_push (x : A) (r : ring) : ring + panic :=
  let m := rmod r in
  if m =? 0 then inr PDivZero
  else
    let t := (rtail r + 1) mod m in
    if t =? rhead r then
      inl {| rbuf := upd m (Some x) (grow_copy (rbuf r) t);
             rhead := 0; rtail := m; rlen := S (rlen r) |}
    else
      inl {| rbuf := upd t (Some x) (rbuf r);
             rhead := rhead r; rtail := t; rlen := S (rlen r) |}.

(** [Pop]: [(nil,false)] when [len = 0] (decided before any division), else the slot after head.
    (A state with len > 0 and mod = 0 is unreachable - see [ring_repr] - but Go would panic there.) *)
Definition ring_pop (r : ring) : (option (option A) * ring) + panic :=
  if rlen r =? 0 then inl (None, r)
  else if rmod r =? 0 then inr PDivZero
  else
    let h := (rhead r + 1) mod (rmod r) in
    inl (Some (slot (rbuf r) h),
         {| rbuf := upd h None (rbuf r); rhead := h; rtail := rtail r; rlen := rlen r - 1 |}).

(** the loop of [PopMany]: for i in [i0, i0+k): pos = (head+1+i) % mod; out[i] = buffer[pos]; buffer[pos] = nil *)
Fixpoint pm_loop (b : list (option A)) (m h i k : nat) : list (option A) * list (option A) :=
  match k with
  | O => ([], b)
  | S k' =>
      let pos := (h + 1 + i) mod m in
      let (out, b') := pm_loop (upd pos None b) m h (S i) k' in
      (slot b pos :: out, b')
  end.

Inductive pm_result : Type :=
| PMEmpty                                  (* (nil, false) *)
| PMOk (out : list (option A)) (r : ring)  (* (buffer, true) *)
| PMPanic (p : panic) (len_after : Z).     (* panic; [len] was already changed, mutex still held *)

(** [PopMany(count)]: empty queue -> (nil,false) whatever the count; [count >= len] is clamped to [len];
    a negative count is NOT clamped: [atomic.AddInt64(&q.len, -count)] increases len and
    [make([]interface{}, count)] panics. count = 0 on a non-empty queue returns an empty slice and true. *)
Definition ring_popmany (count : Z) (r : ring) : pm_result :=
  if rlen r =? 0 then PMEmpty
  else if (count <? 0)%Z then PMPanic PMakeSlice (Z.of_nat (rlen r) - count)
  else
    let k := if (Z.of_nat (rlen r) <=? count)%Z then rlen r else Z.to_nat count in
    if rmod r =? 0 then PMPanic PDivZero (Z.of_nat (rlen r - k))      (* unreachable, see [ring_repr] *)
    else
    let (out, b') := pm_loop (rbuf r) (rmod r) (rhead r) 0 k in
    PMOk out {| rbuf := b'; rhead := (rhead r + k) mod (rmod r); rtail := rtail r; rlen := rlen r - k |}.

Definition ring_length (r : ring) : Z := Z.of_nat (rlen r).
Definition ring_empty (r : ring) : bool := (ring_length r =? 0)%Z.

(** operations and their observable results *)
Inductive rop : Type :=
| OPush (x : A)
| OPop
| OPopMany (count : Z)
| OLength
| OEmpty.

Inductive rres : Type :=
| RPush
| RPop (v : option (option A))              (* None = (nil,false); Some s = (s,true) *)
| RPopMany (v : option (list (option A)))   (* None = (nil,false); Some l = (l,true) *)
| RLength (n : Z)
| REmpty (b : bool)
| RPanic (p : panic) (len_after : Z).       (* the call panicked; Length() afterwards = len_after *)

(** one call; no successor state after a panic (the mutex stays locked) *)
Definition ring_step (o : rop) (r : ring) : option ring * rres :=
  match o with
  | OPush x =>
      match ring_push x r with
      | inl r' => (Some r', RPush)
      | inr p => (None, RPanic p (ring_length r))
      end
  | OPop =>
      match ring_pop r with
      | inl (v, r') => (Some r', RPop v)
      | inr p => (None, RPanic p (ring_length r))
      end
  | OPopMany c =>
      match ring_popmany c r with
      | PMEmpty => (Some r, RPopMany None)
      | PMOk out r' => (Some r', RPopMany (Some out))
      | PMPanic p n => (None, RPanic p n)
      end
  | OLength => (Some r, RLength (ring_length r))
  | OEmpty => (Some r, REmpty (ring_empty r))
  end.

(** a whole call sequence: the results, cut after the first panic *)
Fixpoint ring_run (r : ring) (ops : list rop) : list rres :=
  match ops with
  | [] => []
  | o :: os =>
      match ring_step o r with
      | (Some r', x) => x :: ring_run r' os
      | (None, x) => [x]
      end
  end.

(** [New(n)] followed by the calls; [New] itself panics for n < 0 *)
Definition ring_session (n : Z) (ops : list rop) : list rres :=
  match ring_new n with
  | Some r => ring_run r ops
  | None => [RPanic PMakeSlice 0]
  end.

(** the state after a call sequence ([None] once a call has panicked) *)
Fixpoint ring_exec (r : ring) (ops : list rop) : option ring :=
  match ops with
  | [] => Some r
  | o :: os => match fst (ring_step o r) with Some r' => ring_exec r' os | None => None end
  end.

(** ------------------------------------------------------------------------------------------
    The specification: a FIFO over a plain list, with the same observable result type.  The only
    non-obvious clause is the one the code really has: PopMany with a negative count on a non-empty
    queue panics. *)
Definition fifo_step (o : rop) (l : list A) : option (list A) * rres :=
  match o with
  | OPush x => (Some (l ++ [x]), RPush)
  | OPop => match l with
            | [] => (Some l, RPop None)
            | a :: l' => (Some l', RPop (Some (Some a)))
            end
  | OPopMany c =>
      match l with
      | [] => (Some l, RPopMany None)
      | _ :: _ =>
          if (c <? 0)%Z then (None, RPanic PMakeSlice (Z.of_nat (length l) - c))
          else let k := Z.to_nat (Z.min c (Z.of_nat (length l))) in
               (Some (skipn k l), RPopMany (Some (map Some (firstn k l))))
      end
  | OLength => (Some l, RLength (Z.of_nat (length l)))
  | OEmpty => (Some l, REmpty (match l with [] => true | _ => false end))
  end.

Fixpoint fifo_run (l : list A) (ops : list rop) : list rres :=
  match ops with
  | [] => []
  | o :: os =>
      match fifo_step o l with
      | (Some l', x) => x :: fifo_run l' os
      | (None, x) => [x]
      end
  end.

Fixpoint fifo_exec (l : list A) (ops : list rop) : option (list A) :=
  match ops with
  | [] => Some l
  | o :: os => match fst (fifo_step o l) with Some l' => fifo_exec l' os | None => None end
  end.

(** what a call sequence pushed, what its results handed out (in order), and whether a sequence
    avoids the one input the code panics on *)
Definition pushed_of (ops : list rop) : list A :=
  flat_map (fun o => match o with OPush x => [x] | _ => [] end) ops.
Definition popped_of (rs : list rres) : list (option A) :=
  flat_map (fun x => match x with RPop (Some s) => [s] | RPopMany (Some l) => l | _ => [] end) rs.
Definition counts_nonneg (ops : list rop) : Prop :=
  Forall (fun o => match o with OPopMany c => (0 <= c)%Z | _ => True end) ops.
Definition is_panic (x : rres) : bool := match x with RPanic _ _ => true | _ => false end.

(** ------------------------------------------------------------------------------------------
    Representation invariant / abstraction relation: ring [r] holds exactly the FIFO content [l].
    [m >= 1], cursors inside the buffer, fewer than [m] elements, and walking the buffer cyclically
    from the slot after [head] one meets the elements of [l] in order ([Some]) and then only nil
    slots ([nth_error l i = None] for i >= length l) - including the slot at [head] itself. *)
Definition ring_repr (r : ring) (l : list A) : Prop :=
  let m := rmod r in
  1 <= m /\ rhead r < m /\ length l < m /\
  rlen r = length l /\
  rtail r = (rhead r + length l) mod m /\
  forall i, i < m -> slot (rbuf r) ((rhead r + 1 + i) mod m) = nth_error l i.

(** the invariant proper: some content is represented *)
Definition ring_inv (r : ring) : Prop := exists l, ring_repr r l.

(** the abstraction function: read [rlen] slots after head *)
Definition ring_abs (r : ring) : list (option A) :=
  map (fun i => slot (rbuf r) ((rhead r + 1 + i) mod (rmod r))) (seq 0 (rlen r)).

End Ring.

Arguments ring : clear implicits.
Arguments rop : clear implicits.
Arguments rres : clear implicits.
Arguments pm_result : clear implicits.
