(** Model of the stash of /repo/internal/actor/context.go as it is:

      func (c *Context) Stash()            { c.stash = append(c.stash, c.envelop) }
      func (c *Context) Unstash(num ...int) {
          stashCount := len(c.stash); if stashCount == 0 { return }
          if len(num) == 0 { c.mailbox.Enqueue(c.stash[0]); c.stash = c.stash[1:]; return }
          popCount := Max(Min(num[0], stashCount), 0)
          for i := 0; i < popCount; i++ { c.mailbox.Enqueue(c.stash[i]) }
          c.stash = c.stash[popCount:] ... }

    The state is the stash (oldest first); a call happens while some envelope [cur] is being handled;
    its effect is the new stash and the list of envelopes it enqueues into the actor's own mailbox, in
    order.  [Unstash(n, extra...)] ignores the extra arguments. *)
From Coq Require Import List Arith ZArith Bool.
Import ListNotations.

Set Implicit Arguments.

Inductive sop : Type :=
| SStash
| SUnstash (arg : option Z).   (* None = Unstash(), Some n = Unstash(n) *)

Section Stash.
Context {A : Type}.

(** returns (new stash, enqueued) *)
Definition stash_step (cur : A) (o : sop) (s : list A) : list A * list A :=
  match o with
  | SStash => (s ++ [cur], [])
  | SUnstash arg =>
      match s with
      | [] => (s, [])
      | a :: s' =>
          match arg with
          | None => (s', [a])
          | Some n =>
              let k := Z.to_nat (Z.max (Z.min n (Z.of_nat (length s))) 0) in
              (skipn k s, firstn k s)
          end
      end
  end.

(** a history: calls with the envelope that was current; result: the batches enqueued by the calls,
    in call order, and the final stash *)
Fixpoint stash_run (s : list A) (evs : list (A * sop)) : list (list A) * list A :=
  match evs with
  | [] => ([], s)
  | (cur, o) :: evs' =>
      let (s', enq) := stash_step cur o s in
      let (bs, sf) := stash_run s' evs' in
      (enq :: bs, sf)
  end.

(** the envelopes stashed by a history, in call order *)
Definition stashed_of (evs : list (A * sop)) : list A :=
  flat_map (fun e => match snd e with SStash => [fst e] | SUnstash _ => [] end) evs.

(** several calls during the handling of one envelope *)
Fixpoint stash_acts (cur : A) (acts : list sop) (s : list A) : list A * list A :=
  match acts with
  | [] => (s, [])
  | o :: acts' =>
      let (s', enq) := stash_step cur o s in
      let (s'', enq') := stash_acts cur acts' s' in
      (s'', enq ++ enq')
  end.

End Stash.

(** every call of a history tagged with its position, so that two Stash calls are always distinguishable *)
Definition tag_from {A} (k : nat) (evs : list (A * sop)) : list ((nat * A) * sop) :=
  map (fun p => ((fst p, fst (snd p)), snd (snd p))) (combine (seq k (length evs)) evs).
