(** Proofs about the ring-queue model: the representation relation is established by [New(n)], n >= 1,
    preserved by every call, and every call returns what the list FIFO returns. *)
From Coq Require Import List Arith ZArith Bool Lia.
From Coq Require Import ZifyNat ZifyBool.
From Vivid Require Import Queue.Ring.
Import ListNotations.

Set Implicit Arguments.

(** ---------- lists ---------- *)
Lemma upd_length {B} n (x : B) l : length (upd n x l) = length l.
Proof. revert n; induction l as [|h t IH]; intros [|n]; cbn; auto. Qed.

Lemma nth_upd_eq {B} n (x d : B) l : n < length l -> nth n (upd n x l) d = x.
Proof. revert n; induction l as [|h t IH]; intros [|n] H; cbn in *; try lia; auto. apply IH; lia. Qed.

Lemma nth_upd_neq {B} n k (x d : B) l : n <> k -> nth k (upd n x l) d = nth k l d.
Proof.
  revert n k; induction l as [|h t IH]; intros [|n] [|k] H; cbn; auto; try lia.
Qed.

Lemma nth_error_app_last {B} (l : list B) x i :
  nth_error (l ++ [x]) i = if i =? length l then Some x else nth_error l i.
Proof.
  destruct (Nat.eqb_spec i (length l)) as [->|Hn].
  - rewrite nth_error_app2 by lia. now rewrite Nat.sub_diag.
  - destruct (Nat.lt_ge_cases i (length l)).
    + now rewrite nth_error_app1.
    + rewrite (proj2 (nth_error_None l i)) by lia.
      apply nth_error_None. rewrite app_length; cbn; lia.
Qed.

Lemma nth_repeat_none {B} n p : nth p (repeat (@None B) n) None = None.
Proof. revert p; induction n; intros [|p]; cbn; auto. Qed.

Lemma nth_map_seq {B} (f : nat -> B) n i d : i < n -> nth i (map f (seq 0 n)) d = f i.
Proof.
  intros H. rewrite (nth_indep _ d (f 0)) by (rewrite map_length, seq_length; lia).
  rewrite map_nth. now rewrite seq_nth.
Qed.

Lemma nth_map_some {B} (l : list B) i : nth i (map Some l) None = nth_error l i.
Proof. revert i; induction l; intros [|i]; cbn; auto. Qed.

(** ---------- modular arithmetic on cursors ---------- *)
Lemma mod_inj_offset a m i j : i < m -> j < m -> (a + i) mod m = (a + j) mod m -> i = j.
Proof.
  intros Hi Hj E.
  assert (Hm : m <> 0) by lia.
  pose proof (Nat.div_mod (a + i) m Hm) as D1.
  pose proof (Nat.div_mod (a + j) m Hm) as D2.
  pose proof (Nat.mod_upper_bound (a + j) m Hm) as U.
  rewrite E in D1.
  set (q1 := (a + i) / m) in *. set (q2 := (a + j) / m) in *. set (r := (a + j) mod m) in *.
  assert (q1 = q2) by nia. subst q1. lia.
Qed.

Lemma mod_succ_l h m i : m <> 0 -> ((h + i) mod m + 1) mod m = (h + 1 + i) mod m.
Proof. intros Hm. rewrite Nat.add_mod_idemp_l by auto. f_equal; lia. Qed.

Lemma mod_idemp3 a b c m : m <> 0 -> (a mod m + b + c) mod m = (a + b + c) mod m.
Proof. intros Hm. rewrite <- Nat.add_assoc, Nat.add_mod_idemp_l by auto. f_equal; lia. Qed.

Lemma mod_add_self a m : m <> 0 -> (a + m) mod m = a mod m.
Proof. intros Hm. replace (a + m) with (a + 1 * m) by lia. now rewrite Nat.mod_add. Qed.

Section Proofs.
Context {A : Type}.
Implicit Types (b : list (option A)) (l : list A) (r : ring A).

(** the relation on the components that matter: buffer [b] of length [m] with head [h] holds [l] *)
Definition R b m h l : Prop :=
  m = length b /\ 1 <= m /\ h < m /\ length l < m /\
  forall i, i < m -> slot b ((h + 1 + i) mod m) = nth_error l i.

Lemma repr_R r l :
  ring_repr r l <->
  R (rbuf r) (rmod r) (rhead r) l /\ rlen r = length l /\ rtail r = (rhead r + length l) mod rmod r.
Proof. unfold ring_repr, R, rmod; cbn zeta. tauto. Qed.

Lemma R_new n : 1 <= n -> R (repeat (@None A) n) n 0 [].
Proof.
  intros Hn. unfold R. rewrite repeat_length. repeat split; cbn; try lia.
  intros i _. unfold slot. rewrite nth_repeat_none. now destruct i.
Qed.

Lemma R_head_empty b m h l : R b m h l -> slot b h = None.
Proof.
  intros (-> & Hm & Hh & Hl & Hs).
  specialize (Hs (length b - 1) ltac:(lia)).
  replace (h + 1 + (length b - 1)) with (h + length b) in Hs by lia.
  rewrite mod_add_self, Nat.mod_small in Hs by lia.
  rewrite Hs. apply nth_error_None. lia.
Qed.

Lemma R_pop b m h a l :
  R b m h (a :: l) ->
  slot b ((h + 1) mod m) = Some a /\ R (upd ((h + 1) mod m) None b) m ((h + 1) mod m) l.
Proof.
  intros (Hb & Hm & Hh & Hl & Hs). cbn [length] in Hl.
  assert (Hm0 : m <> 0) by lia.
  pose proof (Nat.mod_upper_bound (h + 1) m Hm0) as Hh'.
  split.
  - specialize (Hs 0 ltac:(lia)). now rewrite Nat.add_0_r in Hs.
  - unfold R. rewrite upd_length. repeat split; try lia.
    intros i Hi. rewrite mod_idemp3 by auto. unfold slot.
    destruct (Nat.eq_dec (S i) m) as [E|NE].
    + (* the walk has come back to the new head: cleared *)
      replace (h + 1 + 1 + i) with (h + 1 + m) by lia. rewrite mod_add_self by auto.
      rewrite nth_upd_eq by lia. symmetry. apply nth_error_None. lia.
    + replace (h + 1 + 1 + i) with (h + 1 + S i) by lia.
      rewrite nth_upd_neq.
      * apply (Hs (S i)). lia.
      * intros E. replace (h + 1) with (h + 1 + 0) in E at 1 by lia.
        apply mod_inj_offset in E; lia.
Qed.

Lemma R_push_nogrow b m h l x :
  R b m h l -> S (length l) < m ->
  R (upd ((h + 1 + length l) mod m) (Some x) b) m h (l ++ [x]).
Proof.
  intros (Hb & Hm & Hh & Hl & Hs) Hroom.
  assert (Hm0 : m <> 0) by lia.
  unfold R. rewrite upd_length, app_length. cbn [length]. repeat split; try lia.
  intros i Hi. rewrite nth_error_app_last. unfold slot.
  destruct (Nat.eqb_spec i (length l)) as [->|NE].
  - apply nth_upd_eq. rewrite <- Hb. now apply Nat.mod_upper_bound.
  - rewrite nth_upd_neq; [now apply Hs|].
    intros E. apply mod_inj_offset in E; lia.
Qed.

Lemma R_push_grow b m h l x :
  R b m h l -> S (length l) = m ->
  R (upd m (Some x) (grow_copy b h)) (m + m) 0 (l ++ [x]).
Proof.
  intros HR Hfull. pose proof (R_head_empty HR) as Hhe.
  destruct HR as (Hb & Hm & Hh & Hl & Hs).
  assert (Hm0 : m <> 0) by lia.
  assert (Hgl : length (grow_copy b h) = m + m).
  { unfold grow_copy. rewrite app_length, map_length, seq_length, repeat_length. lia. }
  unfold R. rewrite upd_length, Hgl, app_length. cbn [length]. repeat split; try lia.
  intros i Hi. rewrite nth_error_app_last. unfold slot.
  destruct (Nat.eqb_spec i (length l)) as [->|NE].
  - (* the new item at position m *)
    replace (0 + 1 + length l) with m by lia. rewrite Nat.mod_small by lia.
    apply nth_upd_eq. lia.
  - destruct (Nat.eq_dec (S i) (m + m)) as [E|NE2].
    + (* position 0 = old slot at head: nil *)
      replace (0 + 1 + i) with (0 + 1 * (m + m)) by lia. rewrite Nat.mod_add by lia.
      rewrite Nat.mod_0_l by lia. rewrite nth_upd_neq by lia.
      unfold grow_copy. rewrite app_nth1 by (rewrite map_length, seq_length; lia).
      rewrite nth_map_seq by lia. rewrite <- Hb, Nat.add_0_r, Nat.mod_small by lia.
      rewrite Hhe. symmetry. apply nth_error_None. lia.
    + rewrite Nat.mod_small by lia. rewrite nth_upd_neq by lia.
      unfold grow_copy.
      destruct (Nat.lt_ge_cases (S i) m) as [Hlow|Hhigh].
      * rewrite app_nth1 by (rewrite map_length, seq_length; lia).
        rewrite nth_map_seq by lia. rewrite <- Hb.
        replace (h + (0 + 1 + i)) with (h + 1 + i) by lia. apply Hs. lia.
      * rewrite app_nth2 by (rewrite map_length, seq_length; lia).
        rewrite nth_repeat_none. symmetry. apply nth_error_None. lia.
Qed.

Lemma pm_loop_spec k : forall b m h i l,
  R b m ((h + i) mod m) l -> k <= length l ->
  exists b', pm_loop b m h i k = (map Some (firstn k l), b') /\
             R b' m ((h + i + k) mod m) (skipn k l).
Proof.
  induction k as [|k IH]; intros b m h i l HR Hk.
  - exists b. cbn. split; auto. now rewrite Nat.add_0_r.
  - destruct l as [|a l]; [cbn in Hk; lia|]. cbn [length] in Hk.
    assert (Hm0 : m <> 0) by (destruct HR as (_ & ? & _); lia).
    destruct (R_pop HR) as [Hv HR'].
    rewrite mod_succ_l in Hv, HR' by auto.
    replace (h + 1 + i) with (h + S i) in HR' at 2 by lia.
    destruct (IH _ _ _ _ _ HR' ltac:(lia)) as (b' & E & HR'').
    exists b'. cbn [pm_loop firstn skipn map]. rewrite E, Hv. split; auto.
    replace (h + i + S k) with (h + S i + k) by lia. exact HR''.
Qed.

(** ---------- every call refines the list FIFO ---------- *)
Lemma push_refines r l x :
  ring_repr r l -> exists r', ring_push x r = inl r' /\ ring_repr r' (l ++ [x]).
Proof.
  intros H. apply repr_R in H. destruct H as (HR & Hlen & Htail).
  pose proof HR as (Hb & Hm & Hh & Hl & Hs).
  assert (Hm0 : rmod r <> 0) by lia.
  unfold ring_push. destruct (Nat.eqb_spec (rmod r) 0) as [?|_]; [lia|].
  assert (Et : (rtail r + 1) mod rmod r = (rhead r + 1 + length l) mod rmod r).
  { rewrite Htail, mod_succ_l by auto. reflexivity. }
  rewrite Et.
  destruct (Nat.eqb_spec ((rhead r + 1 + length l) mod rmod r) (rhead r)) as [E|NE].
  - (* full: grow *)
    assert (Hfull : S (length l) = rmod r).
    { destruct (Nat.eq_dec (S (length l)) (rmod r)) as [|NE]; auto. exfalso.
      rewrite <- (Nat.mod_small (rhead r) (rmod r)) in E at 2 by lia.
      rewrite <- (mod_add_self (rhead r) Hm0) in E.
      replace (rhead r + rmod r) with (rhead r + 1 + (rmod r - 1)) in E by lia.
      apply mod_inj_offset in E; lia. }
    eexists. split; [reflexivity|]. apply repr_R. cbn [rbuf rhead rtail rlen].
    pose proof (R_push_grow x HR Hfull) as HG. rewrite E.
    assert (Hnm : rmod {| rbuf := upd (rmod r) (Some x) (grow_copy (rbuf r) (rhead r)); rhead := 0;
                         rtail := rmod r; rlen := S (rlen r) |} = rmod r + rmod r).
    { destruct HG as (HGb & _). unfold rmod at 1. cbn [rbuf]. now rewrite <- HGb. }
    rewrite Hnm. split; [exact HG|]. rewrite app_length. cbn [length]. split; [lia|].
    rewrite Nat.mod_small; lia.
  - assert (Hroom : S (length l) < rmod r).
    { destruct (Nat.eq_dec (S (length l)) (rmod r)) as [E|]; [|lia]. exfalso. apply NE.
      replace (rhead r + 1 + length l) with (rhead r + rmod r) by lia.
      rewrite mod_add_self, Nat.mod_small; lia. }
    eexists. split; [reflexivity|]. apply repr_R. cbn [rbuf rhead rtail rlen].
    assert (Hnm : rmod {| rbuf := upd ((rhead r + 1 + length l) mod rmod r) (Some x) (rbuf r);
                         rhead := rhead r; rtail := (rhead r + 1 + length l) mod rmod r;
                         rlen := S (rlen r) |} = rmod r).
    { unfold rmod at 1. cbn [rbuf]. now rewrite upd_length. }
    rewrite Hnm. split; [exact (R_push_nogrow x HR Hroom)|].
    rewrite app_length. cbn [length]. split; [lia|]. f_equal. lia.
Qed.

Lemma pop_refines_empty r : ring_repr r [] -> ring_pop r = inl (None, r).
Proof.
  intros H. apply repr_R in H. destruct H as (_ & Hlen & _). unfold ring_pop.
  cbn in Hlen. now rewrite Hlen.
Qed.

Lemma pop_refines_cons r a l :
  ring_repr r (a :: l) -> exists r', ring_pop r = inl (Some (Some a), r') /\ ring_repr r' l.
Proof.
  intros H. apply repr_R in H. destruct H as (HR & Hlen & Htail).
  pose proof HR as (Hb & Hm & Hh & Hl & Hs). cbn [length] in *.
  assert (Hm0 : rmod r <> 0) by lia.
  destruct (R_pop HR) as [Hv HR'].
  unfold ring_pop. rewrite Hlen. cbn [Nat.eqb].
  destruct (Nat.eqb_spec (rmod r) 0) as [?|_]; [lia|].
  rewrite Hv. eexists. split; [reflexivity|]. apply repr_R. cbn [rbuf rhead rtail rlen].
  assert (Hnm : rmod {| rbuf := upd ((rhead r + 1) mod rmod r) None (rbuf r);
                       rhead := (rhead r + 1) mod rmod r; rtail := rtail r; rlen := S (length l) - 1 |} = rmod r).
  { unfold rmod at 1. cbn [rbuf]. now rewrite upd_length. }
  rewrite Hnm. split; [exact HR'|]. split; [lia|].
  rewrite Htail, Nat.add_mod_idemp_l by auto. f_equal. lia.
Qed.

Lemma popmany_refines r l c :
  ring_repr r l -> l <> [] -> (0 <= c)%Z ->
  let k := Z.to_nat (Z.min c (Z.of_nat (length l))) in
  exists r', ring_popmany c r = PMOk (map Some (firstn k l)) r' /\ ring_repr r' (skipn k l).
Proof.
  intros H Hne Hc k. apply repr_R in H. destruct H as (HR & Hlen & Htail).
  pose proof HR as (Hb & Hm & Hh & Hl & Hs).
  assert (Hm0 : rmod r <> 0) by lia.
  assert (Hpos : length l <> 0) by (destruct l; cbn; congruence).
  unfold ring_popmany.
  destruct (Nat.eqb_spec (rlen r) 0) as [?|_]; [lia|].
  destruct (Z.ltb_spec c 0) as [?|_]; [lia|].
  assert (Ek : (if (Z.of_nat (rlen r) <=? c)%Z then rlen r else Z.to_nat c) = k).
  { unfold k. rewrite Hlen. destruct (Z.leb_spec (Z.of_nat (length l)) c); lia. }
  rewrite Ek.
  destruct (Nat.eqb_spec (rmod r) 0) as [?|_]; [lia|].
  assert (Hk : k <= length l) by (unfold k; lia).
  assert (HR0 : R (rbuf r) (rmod r) ((rhead r + 0) mod rmod r) l).
  { now rewrite Nat.add_0_r, Nat.mod_small by lia. }
  destruct (pm_loop_spec (rhead r) 0 HR0 Hk) as (b' & E & HR').
  rewrite E. eexists. split; [reflexivity|]. apply repr_R. cbn [rbuf rhead rtail rlen].
  rewrite Nat.add_0_r in HR'.
  assert (Hnm : rmod {| rbuf := b'; rhead := (rhead r + k) mod rmod r; rtail := rtail r; rlen := rlen r - k |} = rmod r).
  { unfold rmod at 1. cbn [rbuf]. destruct HR' as (HGb & _). now rewrite <- HGb. }
  rewrite Hnm. split; [exact HR'|]. rewrite skipn_length. split; [lia|].
  rewrite Htail, Nat.add_mod_idemp_l by auto. f_equal. lia.
Qed.

Definition step_rel (x : option (ring A) * rres A) (y : option (list A) * rres A) : Prop :=
  snd x = snd y /\
  match fst x, fst y with
  | Some r', Some l' => ring_repr r' l'
  | None, None => True
  | _, _ => False
  end.

Lemma step_refines o r l : ring_repr r l -> step_rel (ring_step o r) (fifo_step o l).
Proof.
  intros H. pose proof (proj1 (repr_R r l) H) as (_ & Hlen & _).
  destruct o as [x| |c| |]; unfold step_rel; cbn [ring_step fifo_step].
  - destruct (push_refines x H) as (r' & -> & H'). cbn. auto.
  - destruct l as [|a l].
    + rewrite (pop_refines_empty H). cbn. auto.
    + destruct (pop_refines_cons H) as (r' & -> & H'). cbn. auto.
  - destruct l as [|a l].
    + unfold ring_popmany. cbn in Hlen. rewrite Hlen. cbn. auto.
    + destruct (Z.ltb_spec c 0) as [Hneg|Hnn].
      * unfold ring_popmany. rewrite Hlen. cbn [length Nat.eqb].
        destruct (Z.ltb_spec c 0); [|lia]. cbn. auto.
      * destruct (popmany_refines (l := a :: l) H ltac:(discriminate) Hnn) as (r' & -> & H').
        cbn. auto.
  - cbn. unfold ring_length. rewrite Hlen. auto.
  - cbn. unfold ring_empty, ring_length. rewrite Hlen. split; auto.
    destruct l; cbn; auto.
Qed.

Lemma run_refines ops : forall r l, ring_repr r l -> ring_run r ops = fifo_run l ops.
Proof.
  induction ops as [|o ops IH]; intros r l H; cbn; auto.
  pose proof (step_refines o H) as (E & HS).
  destruct (ring_step o r) as [[r'|] x], (fifo_step o l) as [[l'|] y]; cbn in *; subst; try tauto.
  f_equal. now apply IH.
Qed.

Lemma exec_refines ops : forall r l, ring_repr r l ->
  match ring_exec r ops, fifo_exec l ops with
  | Some r', Some l' => ring_repr r' l'
  | None, None => True
  | _, _ => False
  end.
Proof.
  induction ops as [|o ops IH]; intros r l H; cbn; auto.
  pose proof (step_refines o H) as (E & HS).
  destruct (ring_step o r) as [[r'|] x], (fifo_step o l) as [[l'|] y]; cbn in *; try tauto.
  now apply IH.
Qed.

Lemma new_repr n : (1 <= n)%Z -> exists r, ring_new n = Some r /\ ring_repr r ([] : list A).
Proof.
  intros Hn. unfold ring_new. destruct (Z.ltb_spec n 0); [lia|].
  eexists. split; [reflexivity|]. apply repr_R. unfold rmod. cbn [rbuf rhead rtail rlen length].
  rewrite repeat_length. split; [apply R_new; lia|]. split; auto.
  rewrite Nat.add_0_r, Nat.mod_small; lia.
Qed.

(** (1) invariant: established by New(n), n >= 1, preserved by every call that returns *)
Lemma new_inv n r : (1 <= n)%Z -> ring_new n = Some r -> ring_inv r.
Proof. intros Hn E. destruct (new_repr Hn) as (r0 & E0 & H). exists []. congruence. Qed.

Lemma step_inv o r r' : ring_inv r -> fst (ring_step o r) = Some r' -> ring_inv r'.
Proof.
  intros [l H] E. pose proof (step_refines o H) as (_ & HS). rewrite E in HS.
  destruct (fst (fifo_step o l)) as [l'|]; [now exists l'|tauto].
Qed.

Lemma exec_inv ops n r' :
  (1 <= n)%Z -> match ring_new n with Some r => ring_exec r ops | None => None end = Some r' -> ring_inv r'.
Proof.
  intros Hn E. destruct (new_repr Hn) as (r0 & E0 & H). rewrite E0 in E.
  pose proof (exec_refines ops H) as HX. rewrite E in HX.
  destruct (fifo_exec [] ops) as [l'|]; [now exists l'|tauto].
Qed.

(** (2) refinement of whole sessions *)
Lemma session_refines n ops : (1 <= n)%Z -> ring_session n ops = fifo_run ([] : list A) ops.
Proof.
  intros Hn. unfold ring_session. destruct (new_repr Hn) as (r0 & -> & H). now apply run_refines.
Qed.

(** the abstraction function reads back exactly the represented content *)
Lemma abs_repr r l : ring_repr r l -> ring_abs r = map Some l.
Proof.
  intros H. apply repr_R in H. destruct H as ((Hb & Hm & Hh & Hl & Hs) & Hlen & _).
  unfold ring_abs. rewrite Hlen. apply nth_ext with (d := None) (d' := None).
  - now rewrite !map_length, seq_length.
  - intros i Hi. rewrite map_length, seq_length in Hi.
    rewrite nth_map_seq by lia. rewrite Hs by lia. symmetry. apply nth_map_some.
Qed.

(** ---------- what the list FIFO guarantees (meaning of the specification) ---------- *)
Lemma popped_cons (x : rres A) rs :
  popped_of (x :: rs) =
  match x with RPop (Some s) => [s] | RPopMany (Some l) => l | _ => [] end ++ popped_of rs.
Proof. reflexivity. Qed.
Lemma pushed_cons (o : rop A) ops :
  pushed_of (o :: ops) = match o with OPush x => [x] | _ => [] end ++ pushed_of ops.
Proof. reflexivity. Qed.

Lemma fifo_prefix ops : forall l,
  exists rest, map Some (l ++ pushed_of ops) = popped_of (fifo_run l ops) ++ rest.
Proof.
  induction ops as [|o ops IH]; intros l.
  - eexists. cbn. reflexivity.
  - cbn [fifo_run]. rewrite pushed_cons.
    destruct o as [x| |c| |]; cbn [fifo_step].
    + destruct (IH (l ++ [x])) as [rest E]. exists rest. rewrite popped_cons. cbn [app].
      rewrite <- E. now rewrite <- app_assoc.
    + destruct l as [|a l].
      * destruct (IH []) as [rest E]. exists rest. exact E.
      * destruct (IH l) as [rest E]. exists rest. rewrite popped_cons. cbn [app map].
        cbn [app map] in E. now rewrite <- E.
    + destruct l as [|a l].
      * destruct (IH []) as [rest E]. exists rest. exact E.
      * destruct (c <? 0)%Z.
        -- eexists. cbn. reflexivity.
        -- set (k := Z.to_nat (Z.min c (Z.of_nat (length (a :: l))))).
           destruct (IH (skipn k (a :: l))) as [rest E]. exists rest.
           rewrite popped_cons. cbn [app] in *.
           rewrite <- app_assoc, <- E, <- map_app, app_assoc, firstn_skipn. reflexivity.
    + destruct (IH l) as [rest E]. exists rest. exact E.
    + destruct (IH l) as [rest E]. exists rest. exact E.
Qed.

Lemma fifo_complete ops : forall l, counts_nonneg ops ->
  exists l', fifo_exec l ops = Some l' /\
             map Some (l ++ pushed_of ops) = popped_of (fifo_run l ops) ++ map Some l' /\
             length (fifo_run l ops) = length ops /\
             existsb (@is_panic A) (fifo_run l ops) = false.
Proof.
  induction ops as [|o ops IH]; intros l Hnn.
  - exists l. cbn. now rewrite app_nil_r.
  - inversion Hnn as [|? ? Ho Hnn']; subst.
    cbn [fifo_run fifo_exec]. rewrite pushed_cons.
    destruct o as [x| |c| |]; cbn [fifo_step fst].
    + destruct (IH (l ++ [x]) Hnn') as (l' & E1 & E2 & E3 & E4). exists l'.
      rewrite popped_cons. cbn [app length existsb is_panic orb].
      rewrite <- app_assoc in E2. cbn [app] in E2. auto.
    + destruct l as [|a l].
      * destruct (IH [] Hnn') as (l' & E1 & E2 & E3 & E4). exists l'.
        rewrite popped_cons. cbn [app length existsb is_panic orb]. auto.
      * destruct (IH l Hnn') as (l' & E1 & E2 & E3 & E4). exists l'.
        rewrite popped_cons. cbn [app map length existsb is_panic orb].
        cbn [app] in E2. rewrite E2. auto.
    + destruct l as [|a l].
      * destruct (IH [] Hnn') as (l' & E1 & E2 & E3 & E4). exists l'.
        rewrite popped_cons. cbn [app length existsb is_panic orb]. auto.
      * destruct (Z.ltb_spec c 0); [lia|].
        set (k := Z.to_nat (Z.min c (Z.of_nat (length (a :: l))))).
        destruct (IH (skipn k (a :: l)) Hnn') as (l' & E1 & E2 & E3 & E4). exists l'.
        rewrite popped_cons. cbn [fst app length existsb is_panic orb] in *.
        repeat split; auto.
        rewrite <- app_assoc, <- E2, <- map_app, app_assoc, firstn_skipn. reflexivity.
    + destruct (IH l Hnn') as (l' & E1 & E2 & E3 & E4). exists l'.
      rewrite popped_cons. cbn [app length existsb is_panic orb]. auto.
    + destruct (IH l Hnn') as (l' & E1 & E2 & E3 & E4). exists l'.
      rewrite popped_cons. cbn [app length existsb is_panic orb]. auto.
Qed.

(** the same, for the ring, through the refinement *)
Lemma ring_order n (ops : list (rop A)) : (1 <= n)%Z ->
  exists rest, map Some (pushed_of ops) = popped_of (ring_session n ops) ++ rest.
Proof. intros Hn. rewrite (session_refines ops Hn). exact (fifo_prefix ops []). Qed.

Lemma ring_order_complete n (ops : list (rop A)) : (1 <= n)%Z -> counts_nonneg ops ->
  exists r l, match ring_new n with Some r0 => ring_exec r0 ops | None => None end = Some r /\
              ring_repr r l /\
              map Some (pushed_of ops) = popped_of (ring_session n ops) ++ map Some l /\
              length (ring_session n ops) = length ops /\
              existsb (@is_panic A) (ring_session n ops) = false.
Proof.
  intros Hn Hnn. rewrite (session_refines ops Hn).
  destruct (fifo_complete [] Hnn) as (l & E1 & E2 & E3 & E4).
  destruct (new_repr Hn) as (r0 & -> & H0).
  pose proof (exec_refines ops H0) as HX. rewrite E1 in HX.
  destruct (ring_exec r0 ops) as [r|]; [|tauto].
  exists r, l. auto.
Qed.

(** ---------- (3) PopMany, clause by clause ---------- *)
Lemma popmany_empty r c : ring_repr r [] -> ring_popmany c r = PMEmpty.
Proof.
  intros H. apply repr_R in H. destruct H as (_ & Hlen & _). unfold ring_popmany.
  cbn in Hlen. now rewrite Hlen.
Qed.

Lemma popmany_negative r l c :
  ring_repr r l -> l <> [] -> (c < 0)%Z ->
  ring_popmany c r = PMPanic PMakeSlice (Z.of_nat (length l) - c).
Proof.
  intros H Hne Hc. apply repr_R in H. destruct H as (_ & Hlen & _). unfold ring_popmany.
  rewrite Hlen. destruct l; [congruence|]. cbn [length Nat.eqb].
  destruct (Z.ltb_spec c 0); [reflexivity|lia].
Qed.

(** ---------- the guard of New ---------- *)
Lemma new_zero_push_panics x :
  exists r0, ring_new 0 = Some r0 /\ ring_step (OPush x) r0 = (None, RPanic PDivZero 0).
Proof. eexists. split; reflexivity. Qed.

Lemma new_negative n : (n < 0)%Z -> @ring_new A n = None.
Proof. intros H. unfold ring_new. destruct (Z.ltb_spec n 0); [reflexivity|lia]. Qed.

End Proofs.
