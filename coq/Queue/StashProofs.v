(** Proofs about the stash model. *)
From Coq Require Import List Arith ZArith Bool Lia.
From Coq Require Import ZifyNat ZifyBool.
From Vivid Require Import Queue.Stash.
Import ListNotations.

Set Implicit Arguments.

Section Proofs.
Context {A : Type}.
Implicit Types (s : list A) (evs : list (A * sop)).

(** one call: what was in the stash plus what this call stashed = what it enqueued followed by what it kept *)
Lemma stash_step_conserves cur o s :
  snd (stash_step cur o s) ++ fst (stash_step cur o s) =
  s ++ match o with SStash => [cur] | SUnstash _ => [] end.
Proof.
  destruct o as [|arg]; cbn.
  - reflexivity.
  - destruct s as [|a s']; [reflexivity|]. destruct arg as [n|]; cbn [fst snd].
    + now rewrite firstn_skipn, app_nil_r.
    + now rewrite app_nil_r.
Qed.

Lemma stash_run_order evs : forall s,
  concat (fst (stash_run s evs)) ++ snd (stash_run s evs) = s ++ stashed_of evs.
Proof.
  induction evs as [|[cur o] evs IH]; intros s; cbn [stash_run stashed_of flat_map].
  - cbn. now rewrite app_nil_r.
  - pose proof (stash_step_conserves cur o s) as HC.
    destruct (stash_step cur o s) as [s' enq]. specialize (IH s').
    destruct (stash_run s' evs) as [bs sf]. cbn [fst snd concat] in *.
    rewrite <- app_assoc, IH, app_assoc, HC, <- app_assoc. reflexivity.
Qed.

(** clause by clause *)
Lemma stash_appends cur s : stash_step cur SStash s = (s ++ [cur], []).
Proof. reflexivity. Qed.

Lemma unstash_noarg cur s :
  stash_step cur (SUnstash None) s = (skipn 1 s, firstn 1 s).
Proof. destruct s; reflexivity. Qed.

Lemma unstash_n cur n s :
  let k := Z.to_nat (Z.min (Z.max n 0) (Z.of_nat (length s))) in
  stash_step cur (SUnstash (Some n)) s = (skipn k s, firstn k s).
Proof.
  intros k. destruct s as [|a s'].
  - cbn. now rewrite skipn_nil, firstn_nil.
  - cbn [stash_step].
    replace (Z.to_nat (Z.max (Z.min n (Z.of_nat (length (a :: s')))) 0)) with k by (unfold k; lia).
    reflexivity.
Qed.

Lemma unstash_nonpositive cur n s : (n <= 0)%Z -> stash_step cur (SUnstash (Some n)) s = (s, []).
Proof.
  intros Hn. rewrite unstash_n. replace (Z.to_nat _) with 0 by lia. reflexivity.
Qed.

Lemma unstash_all cur n s : (Z.of_nat (length s) <= n)%Z -> stash_step cur (SUnstash (Some n)) s = ([], s).
Proof.
  intros Hn. rewrite unstash_n. replace (Z.to_nat _) with (length s) by lia.
  now rewrite skipn_all, firstn_all.
Qed.

End Proofs.

(** each Stash call is matched by exactly one position of (batches ++ final stash): with position tags
    the enqueued envelopes are pairwise distinct, so none is enqueued twice *)
Lemma stashed_tag_bound {A} (evs : list (A * sop)) : forall k x,
  In x (stashed_of (tag_from k evs)) -> k <= fst x.
Proof.
  induction evs as [|[c o] evs IH]; intros k x; cbn; [tauto|].
  unfold tag_from in *. cbn [length seq combine map stashed_of flat_map]. cbn [fst snd].
  rewrite in_app_iff. intros [H|H].
  - destruct o; cbn in H; [|tauto]. destruct H as [<-|[]]. cbn. lia.
  - apply IH in H. lia.
Qed.

Lemma stashed_tag_nodup {A} (evs : list (A * sop)) : forall k, NoDup (stashed_of (tag_from k evs)).
Proof.
  induction evs as [|[c o] evs IH]; intros k; [constructor|].
  unfold tag_from in *. cbn [length seq combine map stashed_of flat_map]. cbn [fst snd].
  destruct o; cbn [app]; [|apply IH].
  constructor; [|apply IH]. intros H. apply (stashed_tag_bound evs (S k)) in H. cbn in H. lia.
Qed.

Lemma stash_run_once {A} (evs : list (A * sop)) :
  NoDup (concat (fst (stash_run [] (tag_from 0 evs))) ++ snd (stash_run [] (tag_from 0 evs))).
Proof. rewrite stash_run_order. cbn [app]. apply stashed_tag_nodup. Qed.

(** tagging does not change what happens: forgetting the tags gives back the untagged run *)
Lemma stash_step_map {A B} (f : A -> B) cur o (s : list A) :
  stash_step (f cur) o (map f s) = (map f (fst (stash_step cur o s)), map f (snd (stash_step cur o s))).
Proof.
  destruct o as [|arg]; cbn [stash_step].
  - cbn [fst snd map]. now rewrite map_app.
  - destruct s as [|a s']; [reflexivity|]. cbn [map]. destruct arg as [n|]; cbn [map fst snd]; [|reflexivity].
    change (f a :: map f s') with (map f (a :: s')).
    now rewrite map_length, skipn_map, firstn_map.
Qed.

Lemma stash_run_untag {A} (evs : list (A * sop)) : forall k (s : list (nat * A)),
  stash_run (map snd s) evs =
  (map (map snd) (fst (stash_run s (tag_from k evs))), map snd (snd (stash_run s (tag_from k evs)))).
Proof.
  induction evs as [|[c o] evs IH]; intros k s; [reflexivity|].
  unfold tag_from in *. cbn [length seq combine map stash_run]. cbn [fst snd].
  change c with (snd (k, c)) at 1. rewrite stash_step_map.
  destruct (stash_step (k, c) o s) as [s' enq]. cbn [fst snd].
  rewrite (IH (S k) s').
  destruct (stash_run s' _) as [bs sf]. reflexivity.
Qed.
