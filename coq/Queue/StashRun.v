(** Executable entry point of the stash model for the correspondence check.

    The harness runs a scripted actor behind a gate: the messages (numbered) are all queued before the first one
    is handled, the actor handles its mailbox in FIFO order, the d-th handled message (re-deliveries
    count) performs the d-th call list of the script (none once the script is used up); what a call
    un-stashes goes to the back of the mailbox.  When the mailbox has run dry the actor un-stashes
    everything that is left and handles it without further calls.
    input  = ( ( id ... ) ( ( call ... ) ... ) )   the ids in sending order;    call = 0 Stash | () Unstash() | (z) Unstash(z)
    output = ( (id stash_count_after) ... ) in handling order.
    The mailbox is a plain FIFO list here (that the real mailbox is one is the other part of C02). *)
From Coq Require Import List NArith ZArith.
From Vivid Require Import Base.Tm Queue.Stash.
Import ListNotations.
Local Open Scope N_scope.

Definition get_sop (t : tm) : option sop :=
  match t with
  | TN 0 => Some SStash
  | TL [] => Some (SUnstash None)
  | TL [z] => match get_z z with Some n => Some (SUnstash (Some n)) | None => None end
  | _ => None
  end.

Fixpoint stash_sim (script : list (list sop)) (queue stash : list N) : list (N * nat) :=
  match script with
  | [] => map (fun m => (m, length stash)) queue ++ map (fun m => (m, O)) stash
  | acts :: script' =>
      match queue with
      | [] => map (fun m => (m, O)) stash
      | m :: q' =>
          let (stash', enq) := stash_acts m acts stash in
          (m, length stash') :: stash_sim script' (q' ++ enq) stash'
      end
  end.

Definition run_stash (t : tm) : tm :=
  match t with
  | TL [ids; sc] =>
      match get_list get_n ids, get_list (get_list get_sop) sc with
      | Some ids, Some script =>
          tlist (fun p => TL [TN (fst p); TN (N.of_nat (snd p))]) (stash_sim script ids [])
      | _, _ => tm_err 1
      end
  | _ => tm_err 0
  end.
