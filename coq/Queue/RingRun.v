(** Executable entry point of the ring-queue model for the correspondence check.
    input  = ( size  ( cmd ... ) )      size : signed (tz)
             cmd = (0 v) Push v | (1) Pop | (2 z) PopMany z | (3) Length | (4) Empty
                 | (5) dump of the representation (head tail mod len buffer), an accessor on the Go side
    output = ( result ... ), one per command, cut after the first panic. *)
From Coq Require Import List NArith ZArith.
From Vivid Require Import Base.Tm Queue.Ring.
Import ListNotations.
Local Open Scope N_scope.

Inductive rcmd : Type :=
| COp (o : rop N)
| CDump.

Definition get_rcmd (t : tm) : option rcmd :=
  match t with
  | TL [TN 0; TN v] => Some (COp (OPush v))
  | TL [TN 1] => Some (COp OPop)
  | TL [TN 2; z] => match get_z z with Some c => Some (COp (OPopMany c)) | None => None end
  | TL [TN 3] => Some (COp OLength)
  | TL [TN 4] => Some (COp OEmpty)
  | TL [TN 5] => Some CDump
  | _ => None
  end.

Definition t_slot (s : option N) : tm := topt TN s.

Definition t_rres (x : rres N) : tm :=
  match x with
  | RPush => TN 0
  | RPop v => topt t_slot v
  | RPopMany v => topt (tlist t_slot) v
  | RLength n => tz n
  | REmpty b => tbool b
  | RPanic p n => TL [TN 999; TN (match p with PDivZero => 1 | PMakeSlice => 2 end); tz n]
  end.

Definition t_dump (r : ring N) : tm :=
  TL [TN (N.of_nat (rhead r)); TN (N.of_nat (rtail r)); TN (N.of_nat (rmod r));
      tz (Z.of_nat (rlen r)); tlist t_slot (rbuf r)].

Fixpoint run_rcmds (r : ring N) (cs : list rcmd) : list tm :=
  match cs with
  | [] => []
  | CDump :: cs' => t_dump r :: run_rcmds r cs'
  | COp o :: cs' =>
      match ring_step o r with
      | (Some r', x) => t_rres x :: run_rcmds r' cs'
      | (None, x) => [t_rres x]
      end
  end.

Definition run_ring (t : tm) : tm :=
  match t with
  | TL [sz; cs] =>
      match get_z sz, get_list get_rcmd cs with
      | Some n, Some cs =>
          match ring_new n with
          | Some r => TL (run_rcmds r cs)
          | None => TL [t_rres (RPanic PMakeSlice 0 : rres N)]
          end
      | _, _ => tm_err 1
      end
  | _ => tm_err 0
  end.

(** the entry point runs exactly the [ring_run] the theorems are about (dumps aside) *)
Lemma run_rcmds_ops (ops : list (rop N)) : forall r,
  run_rcmds r (map COp ops) = map t_rres (ring_run r ops).
Proof.
  induction ops as [|o ops IH]; intros r; cbn; auto.
  destruct (ring_step o r) as [[r'|] x]; cbn; [now rewrite IH|reflexivity].
Qed.
