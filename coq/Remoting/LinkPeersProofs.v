(** Lemmas about Remoting/LinkPeers.v: mailboxes with separate attempt counters are independent (the run of one is a
    function of its own iterations only, whatever the other does in between), so the dead letter after limit+1
    failed attempts (LinkProofs.try_loop_exhaust) survives any interleaving; with ONE shared counter it does not. *)
From Coq Require Import List NArith Bool Lia.
From Vivid Require Import Codec.Prim Remoting.Frame Remoting.Link Remoting.LinkProofs Remoting.LinkPeers.
Import ListNotations.
Local Open Scope N_scope.

Section Peers.
  Context {M : Type}.
  Variable encode : M -> option bytes.
  Variable limit : N.

  Notation st := (@st M).
  Notation iter := (iter encode limit).
  Notation run_iters := (run_iters encode limit).
  Notation try_loop := (try_loop encode limit).
  Notation pair_run := (pair_run encode limit).
  Notation shared_run := (shared_run encode limit).

  (** [try_loop] is the iteration of [iter] *)
  Lemma try_loop_iter m a rest (s : st) :
    try_loop m (a :: rest) s =
      (if snd (iter m a s) then (fst (iter m a s), rest, true) else try_loop m rest (fst (iter m a s))).
  Proof.
    cbn [Link.try_loop]. unfold LinkPeers.iter. destruct (attempt_once encode m a s) as [s1 o].
    destruct o; cbn [fst snd]; try reflexivity. destruct (limit <=? attempt s1); reflexivity.
  Qed.

  Lemma try_loop_iters m : forall script (s s' : st) rest,
    try_loop m script s = (s', rest, true) ->
    exists used, script = used ++ rest /\ run_iters (map (fun a => (m, a)) used) s = s'.
  Proof.
    induction script as [|a script IH]; intros s s' rest H; [discriminate|].
    rewrite try_loop_iter in H. destruct (snd (iter m a s)) eqn:E.
    - injection H as <- <-. exists [a]. split; reflexivity.
    - destruct (IH _ _ _ H) as (used & -> & R). exists (a :: used). split; [reflexivity|]. exact R.
  Qed.

  (** an Enqueue that returns leaves the counter at 0 (defer eb.Reset()) *)
  Lemma iter_returned_attempt m a (s : st) : snd (iter m a s) = true -> attempt (fst (iter m a s)) = 0.
  Proof.
    unfold LinkPeers.iter. destruct (attempt_once encode m a s) as [s1 o].
    destruct o; cbn [fst snd]; try reflexivity.
    destruct (limit <=? attempt s1); cbn [fst snd]; [reflexivity|discriminate].
  Qed.

  (** ---- independence ---- *)
  Lemma pair_run_independent : forall evs (sR sH : st),
    fst (pair_run evs (sR, sH)) = run_iters (proj PR evs) sR /\
    snd (pair_run evs (sR, sH)) = run_iters (proj PH evs) sH.
  Proof.
    induction evs as [|[w [m a]] evs IH]; intros sR sH; [split; reflexivity|].
    destruct w; cbn [LinkPeers.pair_run pair_step proj LinkPeers.run_iters fst snd]; apply IH.
  Qed.

  (** in particular the steps of H can be dropped, added or changed without any effect on R *)
  Lemma pair_run_R_only_depends_on_R evs evs' (sR sH sH' : st) :
    proj PR evs = proj PR evs' ->
    fst (pair_run evs (sR, sH)) = fst (pair_run evs' (sR, sH')).
  Proof.
    intros E. rewrite (proj1 (pair_run_independent evs sR sH)), (proj1 (pair_run_independent evs' sR sH')).
    now rewrite E.
  Qed.

  (** the dead letter after limit+1 failed attempts, under ANY interleaving with the other mailbox *)
  Lemma two_peers_dead_letter m data (n : nat) script evs (sR sH : st) :
    wire_of encode m = Some data ->
    attempt sR + N.of_nat n = limit ->
    (n < length script)%nat -> Forall hard_fail (firstn (S n) script) ->
    proj PR evs = map (fun a => (m, a)) (firstn (S n) script) ->
    let sR' := fst (pair_run evs (sR, sH)) in
    dead sR' = dead sR ++ [m] /\ attempt sR' = 0 /\
    exists tr, trace sR' = trace sR ++ tr /\ count_sleeps tr = N.of_nat n.
  Proof.
    intros Hw Ha Hl Hf Hp. cbn zeta. rewrite (proj1 (pair_run_independent evs sR sH)), Hp.
    destruct (try_loop_exhaust encode limit m data n script sR Hw Ha Hl Hf) as (s' & E & D & A & tr & T & C & _).
    destruct (try_loop_iters m _ _ _ _ E) as (used & Eu & R).
    assert (used = firstn (S n) script) as ->.
    { rewrite <- (firstn_skipn (S n) script) in Eu at 1. now apply app_inv_tail in Eu. }
    rewrite R. split; [exact D|]. split; [exact A|]. exists tr. split; assumption.
  Qed.

  (** ---- one shared counter: the dead letter is lost ---- *)
  Lemma iter_hard_fail_sleeps m a (s : st) data :
    wire_of encode m = Some data -> hard_fail a -> attempt s < limit ->
    dead (fst (iter m a s)) = dead s /\ attempt (fst (iter m a s)) = attempt s + 1 /\ snd (iter m a s) = false.
  Proof.
    intros Hw Ha Hl. unfold LinkPeers.iter.
    destruct (attempt_once_hard_fail encode m a s data Hw Ha) as (s1 & E & A1 & D1 & _).
    rewrite E. replace (limit <=? attempt s1) with false by lia. cbn [fst snd sleep dead attempt].
    repeat split; congruence.
  Qed.

  Lemma shared_counter_never_dead_letters mr ar mh ah data :
    wire_of encode mr = Some data -> hard_fail ar -> 1 <= limit ->
    (forall s : st, snd (iter mh ah s) = true) ->
    forall (n : nat) (sR sH : st), attempt sR = 0 ->
      let p := shared_run (alternate n mr ar mh ah) (sR, sH) in
      dead (fst p) = dead sR /\ attempt (fst p) = 0.
  Proof.
    intros Hw Ha Hl Hh. induction n as [|n IH]; intros sR sH A0; [split; [reflexivity|exact A0]|].
    cbn [alternate LinkPeers.shared_run shared_step fst snd].
    destruct (iter_hard_fail_sleeps mr ar sR data Hw Ha ltac:(lia)) as (D & _ & _).
    set (sR1 := fst (iter mr ar sR)) in *.
    set (sH1 := set_attempt (attempt sR1) sH).
    set (sH2 := fst (iter mh ah sH1)).
    assert (A1 : attempt (set_attempt (attempt sH2) sR1) = 0).
    { cbn [set_attempt attempt]. apply iter_returned_attempt, Hh. }
    destruct (IH (set_attempt (attempt sH2) sR1) sH2 A1) as [D' A'].
    cbn zeta. rewrite D', A'. cbn [set_attempt dead]. split; [exact D|reflexivity].
  Qed.
End Peers.

(** witnesses *)
Definition stopped : answers := {| a_stopped := true; a_connect := CRefused; a_closed := false; a_werr := true |}.

Lemma stopped_always_returns {M} (encode : M -> option bytes) limit m (s : @st M) :
  snd (iter encode limit m stopped s) = true.
Proof. reflexivity. Qed.

Lemma shared_counter_refuted :
  forall n : nat,
    dead (fst (shared_run id_encode 1 (alternate n [7] refuse_closed [8] stopped) (init, init))) = [] /\
    dead (fst (pair_run id_encode 1 (alternate 2 [7] refuse_closed [8] stopped) (init, init))) = [[7]].
Proof.
  intros n. split; [|reflexivity].
  refine (proj1 (shared_counter_never_dead_letters id_encode 1 [7] refuse_closed [8] stopped (frame [7]) _ _ _ _ n init init _));
    try reflexivity; try (repeat split; fail); try lia.
Qed.
