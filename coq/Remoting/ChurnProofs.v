(** Lemmas about Remoting/Churn.v: a message that arrives while an actor is registered at its path goes to THAT
    actor (the one registered at arrival time), exactly once, in order, whatever was registered there before. *)
From Coq Require Import List NArith Bool Lia.
From Vivid Require Import Codec.Prim Remoting.Frame Remoting.FrameProofs Remoting.Churn.
Import ListNotations.
Local Open Scope N_scope.

Lemma bytes_eqb_refl a : bytes_eqb a a = true.
Proof. induction a as [|x a IH]; [reflexivity|]. cbn [bytes_eqb]. now rewrite N.eqb_refl, IH. Qed.

Lemma bytes_eqb_eq a : forall b, bytes_eqb a b = true <-> a = b.
Proof.
  induction a as [|x a IH]; intros [|y b]; cbn [bytes_eqb]; split; try congruence; try reflexivity.
  - intros H. apply andb_true_iff in H as [H1 H2]. apply N.eqb_eq in H1. apply IH in H2. congruence.
  - intros [= -> ->]. now rewrite N.eqb_refl, bytes_eqb_refl.
Qed.

Lemma bytes_eqb_neq a b : a <> b -> bytes_eqb a b = false.
Proof. intros H. destruct (bytes_eqb a b) eqn:E; [|reflexivity]. apply bytes_eqb_eq in E. contradiction. Qed.

(** ---- the registry ---- *)
Lemma lookup_remove_same p r : lookup p (remove p r) = None.
Proof.
  induction r as [|[q a] t IH]; [reflexivity|]. cbn [remove].
  destruct (bytes_eqb q p) eqn:E; [exact IH|]. cbn [lookup]. now rewrite E.
Qed.

Lemma lookup_remove_other p q r : p <> q -> lookup q (remove p r) = lookup q r.
Proof.
  intros N. induction r as [|[x a] t IH]; [reflexivity|]. cbn [remove lookup].
  destruct (bytes_eqb x p) eqn:E.
  - apply bytes_eqb_eq in E. subst x. now rewrite (bytes_eqb_neq _ _ N).
  - cbn [lookup]. now rewrite IH.
Qed.

Lemma lookup_spawn_free p i r :
  lookup p r = None -> lookup p (spawn p i r) = Some {| i_inc := i; i_epoch := 0 |}.
Proof. intros H. unfold spawn. rewrite H. cbn [lookup]. now rewrite bytes_eqb_refl. Qed.

Lemma lookup_spawn_taken p i r a : lookup p r = Some a -> spawn p i r = r.
Proof. intros H. unfold spawn. now rewrite H. Qed.

Lemma lookup_spawn_other p q i r : p <> q -> lookup q (spawn p i r) = lookup q r.
Proof.
  intros N. unfold spawn. destruct (lookup p r); [reflexivity|]. cbn [lookup]. now rewrite (bytes_eqb_neq _ _ N).
Qed.

Lemma lookup_restart_same p r a :
  lookup p r = Some a -> lookup p (restart p r) = Some {| i_inc := i_inc a; i_epoch := i_epoch a + 1 |}.
Proof.
  induction r as [|[q b] t IH]; [discriminate|]. cbn [lookup restart].
  destruct (bytes_eqb q p) eqn:E.
  - intros [= ->]. cbn [lookup]. now rewrite E.
  - intros H. cbn [lookup]. rewrite E. now apply IH.
Qed.

Lemma lookup_restart_none p r : lookup p r = None -> restart p r = r.
Proof.
  induction r as [|[q b] t IH]; [reflexivity|]. cbn [lookup restart].
  destruct (bytes_eqb q p); [discriminate|]. intros H. now rewrite IH.
Qed.

Lemma lookup_restart_other p q r : p <> q -> lookup q (restart p r) = lookup q r.
Proof.
  intros N. induction r as [|[x a] t IH]; [reflexivity|]. cbn [restart lookup].
  destruct (bytes_eqb x p) eqn:E.
  - apply bytes_eqb_eq in E. subst x. cbn [lookup]. now rewrite (bytes_eqb_neq _ _ N).
  - cbn [lookup]. now rewrite IH.
Qed.

(** the incarnation registered at p after "kill p; spawn p i" is i, whatever the history *)
Lemma lookup_respawn p i r :
  lookup p (reg_after [SKill p; SSpawn p i] r) = Some {| i_inc := i; i_epoch := 0 |}.
Proof. cbn [reg_after reg_step]. apply lookup_spawn_free, lookup_remove_same. Qed.

Lemma reg_after_app a : forall b r, reg_after (a ++ b) r = reg_after b (reg_after a r).
Proof. induction a as [|s a IH]; intros b r; [reflexivity|]. cbn [app reg_after]. apply IH. Qed.

Section Churn.
  Context {D : Type}.
  Variable dec : bytes -> option D.
  Variable rpath : D -> bytes.

  Lemma run_churn_app a : forall b r,
    run_churn dec rpath (a ++ b) r = run_churn dec rpath a r ++ run_churn dec rpath b (reg_after a r).
  Proof.
    induction a as [|s a IH]; intros b r; [reflexivity|].
    destruct s; cbn [app run_churn reg_after reg_step]; rewrite IH; [reflexivity..|]. now rewrite app_assoc.
  Qed.

  Lemma dispatch_live r d a : lookup (rpath d) r = Some a -> dispatch rpath r d = ODeliver (rpath d) a d.
  Proof. intros H. unfold dispatch. now rewrite H. Qed.

  Lemma dispatch_none r d : lookup (rpath d) r = None -> dispatch rpath r d = ODead (rpath d) d.
  Proof. intros H. unfold dispatch. now rewrite H. Qed.

  Lemma map_dispatch_live r p a ds :
    lookup p r = Some a -> Forall (fun d => rpath d = p) ds ->
    map (dispatch rpath r) ds = map (ODeliver p a) ds.
  Proof.
    intros H F. induction F as [|d ds Hd _ IH]; [reflexivity|]. cbn [map]. rewrite IH. f_equal.
    rewrite <- Hd in H. rewrite (dispatch_live _ _ _ H). now rewrite Hd.
  Qed.

  Lemma map_dispatch_none r p ds :
    lookup p r = None -> Forall (fun d => rpath d = p) ds ->
    map (dispatch rpath r) ds = map (ODead p) ds.
  Proof.
    intros H F. induction F as [|d ds Hd _ IH]; [reflexivity|]. cbn [map]. rewrite IH. f_equal.
    rewrite <- Hd in H. rewrite (dispatch_none _ _ H). now rewrite Hd.
  Qed.

  Lemma delivered_at_map_deliver p a ds : delivered_at p (map (ODeliver p a) ds) = map (fun d : D => (a, d)) ds.
  Proof. induction ds as [|d ds IH]; [reflexivity|]. cbn [map delivered_at]. now rewrite bytes_eqb_refl, IH. Qed.

  Lemma dead_at_map_deliver p q a (ds : list D) : dead_at q (map (ODeliver p a) ds) = [].
  Proof. induction ds as [|d ds IH]; [reflexivity|]. cbn [map dead_at]. exact IH. Qed.
End Churn.

(** received envelopes leave no trace in the registry *)
Lemma reg_after_strip ss : forall r, reg_after (strip_traffic ss) r = reg_after ss r.
Proof. induction ss as [|s ss IH]; intros r; [reflexivity|]. destruct s; cbn [strip_traffic reg_after reg_step]; apply IH. Qed.

Section History.
  Context {D : Type}.
  Variable dec : bytes -> option D.
  Variable rpath : D -> bytes.

  (** routing of the envelopes of a phase is a function of the registry changes before it; the envelopes received
      earlier (how many, to whom, to which incarnation) do not matter *)
  Lemma routing_history_independent pre1 pre2 chunks r :
    strip_traffic pre1 = strip_traffic pre2 ->
    exists routed,
      routed = map (dispatch rpath (reg_after (strip_traffic pre1) r)) (delivered (receive dec chunks)) /\
      run_churn dec rpath (pre1 ++ [STraffic chunks]) r = run_churn dec rpath pre1 r ++ routed /\
      run_churn dec rpath (pre2 ++ [STraffic chunks]) r = run_churn dec rpath pre2 r ++ routed.
  Proof.
    intros E. eexists. split; [reflexivity|]. rewrite !run_churn_app. cbn [run_churn]. rewrite !app_nil_r.
    rewrite <- (reg_after_strip pre1), <- (reg_after_strip pre2), E. split; reflexivity.
  Qed.
End History.

Section Codec.
  Context {M : Type}.
  Variable enc : M -> bytes.
  Variable dec : bytes -> option M.
  Variable rpath : M -> bytes.
  Hypothesis codec_roundtrip : forall m, dec (enc m) = Some m.

  (** one traffic phase anywhere in a script: every message of the phase is dispatched exactly once, in order,
      against the registry as it is when the phase begins; for every chunking *)
  Lemma churn_phase pre post ms chunks r :
    Forall (fun m => legal (enc m)) ms ->
    concat chunks = concat (map (fun m => frame (enc m)) ms) ->
    run_churn dec rpath (pre ++ STraffic chunks :: post) r =
      run_churn dec rpath pre r ++ map (dispatch rpath (reg_after pre r)) ms
        ++ run_churn dec rpath post (reg_after pre r).
  Proof.
    intros HF E. rewrite run_churn_app. cbn [run_churn].
    destruct (exactly_once_in_order enc dec codec_roundtrip ms chunks HF E) as [_ ->]. reflexivity.
  Qed.

  (** the property the receiver must have under name reuse: after "kill p; spawn p i" (whatever happened
      before, in particular earlier traffic to p), the messages sent to p reach incarnation i, exactly once, in
      order, none is dead-lettered *)
  Lemma churn_respawn_delivers pre p i ms chunks r :
    Forall (fun m => legal (enc m)) ms ->
    Forall (fun m => rpath m = p) ms ->
    concat chunks = concat (map (fun m => frame (enc m)) ms) ->
    run_churn dec rpath (pre ++ [SKill p; SSpawn p i; STraffic chunks]) r =
      run_churn dec rpath pre r ++ map (ODeliver p {| i_inc := i; i_epoch := 0 |}) ms.
  Proof.
    intros HF HP E.
    replace (pre ++ [SKill p; SSpawn p i; STraffic chunks]) with ((pre ++ [SKill p; SSpawn p i]) ++ STraffic chunks :: [])
      by (now rewrite <- app_assoc).
    rewrite (churn_phase _ [] ms chunks r HF E). cbn [run_churn]. rewrite app_nil_r.
    rewrite run_churn_app. cbn [run_churn reg_step]. rewrite app_nil_r. f_equal.
    apply map_dispatch_live; [|exact HP]. rewrite reg_after_app. apply lookup_respawn.
  Qed.

  (** a supervision restart does not change where messages go: same incarnation, next epoch *)
  Lemma churn_restart_delivers pre p a ms chunks r :
    lookup p (reg_after pre r) = Some a ->
    Forall (fun m => legal (enc m)) ms ->
    Forall (fun m => rpath m = p) ms ->
    concat chunks = concat (map (fun m => frame (enc m)) ms) ->
    run_churn dec rpath (pre ++ [SRestart p; STraffic chunks]) r =
      run_churn dec rpath pre r ++ map (ODeliver p {| i_inc := i_inc a; i_epoch := i_epoch a + 1 |}) ms.
  Proof.
    intros HL HF HP E.
    replace (pre ++ [SRestart p; STraffic chunks]) with ((pre ++ [SRestart p]) ++ STraffic chunks :: [])
      by (now rewrite <- app_assoc).
    rewrite (churn_phase _ [] ms chunks r HF E). cbn [run_churn]. rewrite app_nil_r.
    rewrite run_churn_app. cbn [run_churn reg_step]. rewrite app_nil_r. f_equal.
    apply map_dispatch_live; [|exact HP]. rewrite reg_after_app. cbn [reg_after reg_step].
    now apply lookup_restart_same.
  Qed.

  (** nobody registered: dead letters on the receiving system, in order *)
  Lemma churn_killed_dead_letters pre p ms chunks r :
    Forall (fun m => legal (enc m)) ms ->
    Forall (fun m => rpath m = p) ms ->
    concat chunks = concat (map (fun m => frame (enc m)) ms) ->
    run_churn dec rpath (pre ++ [SKill p; STraffic chunks]) r =
      run_churn dec rpath pre r ++ map (ODead p) ms.
  Proof.
    intros HF HP E.
    replace (pre ++ [SKill p; STraffic chunks]) with ((pre ++ [SKill p]) ++ STraffic chunks :: [])
      by (now rewrite <- app_assoc).
    rewrite (churn_phase _ [] ms chunks r HF E). cbn [run_churn]. rewrite app_nil_r.
    rewrite run_churn_app. cbn [run_churn reg_step]. rewrite app_nil_r. f_equal.
    apply map_dispatch_none; [|exact HP]. rewrite reg_after_app. cbn [reg_after reg_step].
    apply lookup_remove_same.
  Qed.
End Codec.
