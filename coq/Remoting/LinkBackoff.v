(** Mailbox.Enqueue (Remoting/Link.v) composed with the exact back-off object (Remoting/Backoff.v).

    Link.v's machine writes [LSleep k] where the code calls time.Sleep(m.backoff.Next()) with currentAttempt = k.
    Here: the k's of one Enqueue are 0, 1, 2, ... (one per retry, no gaps, never more than ReconnectLimit), so the
    time the CALLING goroutine spends asleep inside one Tell is the sum of [bo_next mailbox_cfg k r_k] over them,
    whatever integers r_k the random source hands to rand.Float64: between 75 % and 125 % of the capped
    exponential, per sleep and in total. *)
From Coq Require Import List NArith ZArith Lia Bool.
From Coq Require Import ZifyN ZifyNat ZifyBool.
From Vivid Require Import Codec.Prim Remoting.Frame Remoting.Link Remoting.LinkProofs Remoting.Backoff Remoting.BackoffProofs.
Import ListNotations.

(** the attempt numbers of the sleeps of a trace, in order *)
Fixpoint sleep_ks (tr : list label) : list N :=
  match tr with
  | [] => []
  | LSleep k :: r => k :: sleep_ks r
  | _ :: r => sleep_ks r
  end.

(** nanoseconds slept when the i-th Next() draws the i-th integer of [rs] *)
Fixpoint sleep_ns (c : bo_cfg) (ks : list N) (rs : list Z) : Z :=
  match ks, rs with
  | k :: ks', r :: rs' => (bo_next c k r + sleep_ns c ks' rs')%Z
  | _, _ => 0%Z
  end.

Lemma sleep_ks_app a b : sleep_ks (a ++ b) = sleep_ks a ++ sleep_ks b.
Proof. induction a as [|x a IH]; [reflexivity|]. destruct x; cbn [app sleep_ks]; rewrite ?IH; reflexivity. Qed.

Lemma sleep_ks_length tr : N.of_nat (length (sleep_ks tr)) = count_sleeps tr.
Proof. induction tr as [|x tr IH]; [reflexivity|]. destruct x; cbn [sleep_ks count_sleeps length]; lia. Qed.

Lemma no_sleeps tr : count_sleeps tr = 0%N -> sleep_ks tr = [].
Proof. intros H. pose proof (sleep_ks_length tr) as L. destruct (sleep_ks tr); [reflexivity|]. cbn in L. lia. Qed.

Lemma nseq_app from a b : nseq from (a + b) = nseq from a ++ nseq (from + N.of_nat a)%N b.
Proof.
  revert from. induction a as [|a IH]; intros from; cbn [nseq plus app].
  - f_equal. lia.
  - f_equal. rewrite IH. do 2 f_equal. lia.
Qed.

Section LB.
  Context {M : Type}.
  Variable encode : M -> option bytes.
  Variable limit : N.

  (** the sleeps of one Enqueue: attempt numbers attempt s, attempt s + 1, ... without gaps, at most limit - attempt s *)
  Lemma try_loop_sleep_ks m : forall script (s s' : @st M) rest,
    (attempt s <= limit)%N ->
    try_loop encode limit m script s = (s', rest, true) ->
    exists tr n, trace s' = trace s ++ tr /\ sleep_ks tr = nseq (attempt s) n /\
                 (N.of_nat n + attempt s <= limit)%N /\ count_sleeps tr = N.of_nat n.
  Proof.
    induction script as [|a script IH]; intros s s' rest Hat H; cbn [try_loop] in H; [discriminate|].
    pose proof (attempt_once_shape encode m a s) as Hs. destruct (attempt_once encode m a s) as [s1 o].
    destruct Hs as (Hd & Ha & tr & Htr & Hcs & Hnd & Ho & _).
    pose proof (no_sleeps tr Hcs) as Hks.
    destruct o.
    - injection H as <- <-. exists tr, O. cbn [finish trace nseq]. repeat split; auto; lia.
    - injection H as <- <-. exists (tr ++ [LDead]), O. cbn [finish trace nseq].
      rewrite app_assoc, Htr, sleep_ks_app, Hks, count_sleeps_app, Hcs. cbn. repeat split; auto; lia.
    - destruct (limit <=? attempt s1)%N eqn:El.
      + injection H as <- <-. exists (tr ++ [LDead]), O. cbn [finish trace nseq].
        rewrite app_assoc, Htr, sleep_ks_app, Hks, count_sleeps_app, Hcs. cbn. repeat split; auto; lia.
      + apply IH in H; [|cbn [sleep attempt]; lia].
        destruct H as (tr2 & n & Htr2 & Hk2 & Hn2 & Hc2). cbn [sleep trace attempt] in *.
        exists (tr ++ [LSleep (attempt s1)] ++ tr2), (S n).
        split; [rewrite Htr2, Htr, <- !app_assoc; reflexivity|].
        rewrite !sleep_ks_app, Hks, !count_sleeps_app, Hcs. cbn [sleep_ks count_sleeps app nseq].
        rewrite Hk2, Hc2, Ha. repeat split; auto; lia.
  Qed.
End LB.

(** sum of bo_next over consecutive attempts = the sum of Try's sleeps: bounds *)
Lemma sleep_ns_bounds c : cfg_ok c -> forall n from rs,
  length rs = n -> Forall draw_ok rs ->
  (sum_lo c from n <= sleep_ns c (nseq from n) rs <= sum_hi c from n)%Z.
Proof.
  intros Hc. induction n as [|n IH]; intros from rs Hl Hd.
  - cbn. lia.
  - destruct rs as [|r rs]; [discriminate|]. cbn [nseq sleep_ns sum_lo sum_hi].
    pose proof (bo_next_bounds c from r Hc (Forall_inv Hd)).
    specialize (IH (from + 1)%N rs ltac:(cbn in Hl; lia) (Forall_inv_tail Hd)). lia.
Qed.

Lemma mailbox_cfg_ok : cfg_ok mailbox_cfg.
Proof. unfold cfg_ok, mailbox_cfg. cbn [bo_init bo_max]. change (2 ^ 52)%Z with 4503599627370496%Z. lia. Qed.
Lemma server_cfg_ok : cfg_ok server_cfg.
Proof. unfold cfg_ok, server_cfg. cbn [bo_init bo_max]. change (2 ^ 52)%Z with 4503599627370496%Z. lia. Qed.

(** one Enqueue that returns: the calling goroutine sleeps n <= ReconnectLimit times, for the attempt numbers
    0 .. n-1, and for every random stream the total lies in the sum of the intervals, at most n * 3.75 s *)
Theorem enqueue_blocking_time {M} (encode : M -> option bytes) (limit : N) m script (s s' : @st M) rest :
  attempt s = 0%N ->
  try_loop encode limit m script s = (s', rest, true) ->
  exists tr n, trace s' = trace s ++ tr /\ sleep_ks tr = nseq 0 n /\ (N.of_nat n <= limit)%N /\
    forall rs, length rs = n -> Forall draw_ok rs ->
      (sum_lo mailbox_cfg 0 n <= sleep_ns mailbox_cfg (sleep_ks tr) rs <= sum_hi mailbox_cfg 0 n /\
       0 <= sum_lo mailbox_cfg 0 n /\ sum_hi mailbox_cfg 0 n <= Z.of_nat n * 3750000000)%Z.
Proof.
  intros Ha H. destruct (try_loop_sleep_ks encode limit m script s s' rest ltac:(lia) H) as (tr & n & Htr & Hk & Hn & _).
  rewrite Ha in *. exists tr, n. repeat split; auto; try lia.
  - rewrite Hk. apply (sleep_ns_bounds mailbox_cfg mailbox_cfg_ok n 0%N rs); assumption.
  - rewrite Hk. apply (sleep_ns_bounds mailbox_cfg mailbox_cfg_ok n 0%N rs); assumption.
  - apply sum_lo_nonneg, mailbox_cfg_ok.
  - apply (sum_hi_le_cap mailbox_cfg mailbox_cfg_ok n 0%N).
Qed.

(** the peer stays unreachable: exactly ReconnectLimit sleeps before the dead letter, so the caller is blocked for at
    least the sum of the lower interval ends *)
Theorem enqueue_exhaustion_blocks {M} (encode : M -> option bytes) (limit : N) m data script (s : @st M) :
  wire_of encode m = Some data -> attempt s = 0%N ->
  (N.to_nat limit < length script)%nat -> Forall hard_fail (firstn (S (N.to_nat limit)) script) ->
  exists s' tr, try_loop encode limit m script s = (s', skipn (S (N.to_nat limit)) script, true) /\
    dead s' = dead s ++ [m] /\ trace s' = trace s ++ tr /\ sleep_ks tr = nseq 0 (N.to_nat limit) /\
    forall rs, length rs = N.to_nat limit -> Forall draw_ok rs ->
      (sum_lo mailbox_cfg 0 (N.to_nat limit) <= sleep_ns mailbox_cfg (sleep_ks tr) rs <= sum_hi mailbox_cfg 0 (N.to_nat limit))%Z.
Proof.
  intros Hw Ha Hlen Hf.
  destruct (try_loop_exhaust encode limit m data (N.to_nat limit) script s Hw ltac:(lia) Hlen Hf)
    as (s' & E & Hd & _ & tr & Htr & Hc & _).
  destruct (try_loop_sleep_ks encode limit m script s s' _ ltac:(lia) E) as (tr2 & n & Htr2 & Hk & Hn & Hc2).
  assert (tr2 = tr) by (rewrite Htr in Htr2; apply app_inv_head in Htr2; auto). subst tr2.
  assert (n = N.to_nat limit) by lia. subst n. rewrite Ha in Hk.
  exists s', tr. repeat split; auto; rewrite Hk; apply (sleep_ns_bounds mailbox_cfg mailbox_cfg_ok); assumption.
Qed.

(** vivid's default ReconnectLimit is 10: a Tell to an unreachable peer keeps its caller asleep for 13.575 s .. 22.625 s *)
Lemma default_limit_blocking :
  sum_lo mailbox_cfg 0 10 = 13575000000%Z /\ sum_hi mailbox_cfg 0 10 = 22625000000%Z.
Proof. vm_compute. auto. Qed.
