(** Lemmas about Remoting/Frame.v: the receiver is chunking independent; a stream of legal frames is
    delivered exactly once, in order; the oversize branch desynchronises; decode failures do not stop the
    stream; the envelope is never empty; handshake. *)
From Coq Require Import List NArith ZArith Lia Bool.
From Coq Require Import ZifyN ZifyNat ZifyBool.
From Vivid Require Import Codec.Prim Codec.PrimProofs Remoting.Frame.
Import ListNotations.
Local Open Scope N_scope.

Lemma max_frame_val : max_frame = 4194304.
Proof. reflexivity. Qed.

(** ---- read_full through the buffer = a cut of the flat stream ---- *)
Lemma read_full_spec (n : N) : forall chunks buf,
  let s := buf ++ concat chunks in
  if n <=? N.of_nat (length s)
  then exists buf' ch', read_full n buf chunks = RFok (firstn (N.to_nat n) s) buf' ch'
                        /\ buf' ++ concat ch' = skipn (N.to_nat n) s
  else read_full n buf chunks = RFeof s.
Proof.
  induction chunks as [|c cs IH]; intros buf; cbn [concat read_full].
  - rewrite app_nil_r. destruct (n <=? N.of_nat (length buf)) eqn:E.
    + exists (skipn (N.to_nat n) buf), []. now rewrite app_nil_r.
    + reflexivity.
  - destruct (n <=? N.of_nat (length buf)) eqn:E.
    + assert (El : (n <=? N.of_nat (length (buf ++ c ++ concat cs))) = true) by (rewrite app_length; lia).
      rewrite El. exists (skipn (N.to_nat n) buf), (c :: cs). split.
      * rewrite firstn_app. replace (N.to_nat n - length buf)%nat with 0%nat by lia. now rewrite firstn_O, app_nil_r.
      * cbn [concat]. rewrite skipn_app. replace (N.to_nat n - length buf)%nat with 0%nat by lia. reflexivity.
    + specialize (IH (buf ++ c)). cbn zeta in IH. rewrite <- app_assoc in IH. exact IH.
Qed.

Lemma take_n_eq k (s : bytes) :
  take_n k s = if Nat.leb k (length s) then Ok (firstn k s, skipn k s) else Err EEOF.
Proof. reflexivity. Qed.

Section R.
  Context {D : Type}.
  Variable dec : bytes -> option D.

  (** the receiver as coded (buffer + arbitrary reads) computes the loop on the flat stream *)
  Lemma recv_parse : forall fuel buf chunks,
    recv dec fuel buf chunks = parse dec fuel (buf ++ concat chunks).
  Proof.
    induction fuel as [|f IH]; intros buf chunks; [reflexivity|].
    cbn [recv parse].
    pose proof (read_full_spec 4 chunks buf) as H4. cbn zeta in H4.
    set (s := buf ++ concat chunks) in *.
    destruct (4 <=? N.of_nat (length s)) eqn:E4.
    - destruct H4 as (buf1 & ch1 & -> & Hrest).
      assert (Hs : s <> []) by (intros ->; cbn in E4; lia).
      destruct s as [|x s'] eqn:Es; [congruence|]. rewrite <- Es in *.
      rewrite take_n_eq. replace (Nat.leb 4 (length s)) with true by (symmetry; apply Nat.leb_le; lia).
      change (N.to_nat 4) with 4%nat in *.
      destruct (unbe (firstn 4 s) =? 0); [reflexivity|].
      set (n := unbe (firstn 4 s)).
      pose proof (read_full_spec n ch1 buf1) as Hn. cbn zeta in Hn. rewrite Hrest in Hn.
      destruct (max_frame <? n).
      + unfold take_N. destruct (n <=? N.of_nat (length (skipn 4 s))) eqn:En.
        * destruct Hn as (buf2 & ch2 & -> & Hrest2). rewrite IH, Hrest2. reflexivity.
        * rewrite Hn. reflexivity.
      + unfold take_N. destruct (n <=? N.of_nat (length (skipn 4 s))) eqn:En.
        * destruct Hn as (buf2 & ch2 & -> & Hrest2). rewrite IH, Hrest2. reflexivity.
        * rewrite Hn. reflexivity.
    - rewrite H4. destruct s as [|x s'] eqn:Es; [reflexivity|].
      rewrite take_n_eq. replace (Nat.leb 4 (length (x :: s'))) with false by (symmetry; apply Nat.leb_gt; lia).
      reflexivity.
  Qed.

  (** fuel: each round consumes at least four bytes *)
  Lemma parse_fuel_irrel : forall f1 f2 s,
    (length s < f1)%nat -> (length s < f2)%nat -> parse dec f1 s = parse dec f2 s.
  Proof.
    induction f1 as [|f1 IH]; intros f2 s H1 H2; [lia|].
    destruct f2 as [|f2]; [lia|]. cbn [parse].
    destruct s as [|x s'] eqn:Es; [reflexivity|]. rewrite <- Es in *.
    rewrite take_n_eq. destruct (Nat.leb 4 (length s)) eqn:E4; [|reflexivity].
    apply Nat.leb_le in E4.
    assert (Hsk : (length (skipn 4 s) + 4 = length s)%nat) by (rewrite skipn_length; lia).
    destruct (unbe (firstn 4 s) =? 0); [reflexivity|].
    destruct (max_frame <? unbe (firstn 4 s)).
    - unfold take_N. destruct (unbe (firstn 4 s) <=? N.of_nat (length (skipn 4 s))); [|reflexivity].
      f_equal. apply IH; rewrite skipn_length; lia.
    - unfold take_N. destruct (unbe (firstn 4 s) <=? N.of_nat (length (skipn 4 s))); [|reflexivity].
      f_equal. apply IH; rewrite skipn_length; lia.
  Qed.

  Lemma parse_no_fuel : forall f s, (length s < f)%nat -> ~ In RFuel (parse dec f s).
  Proof.
    induction f as [|f IH]; intros s H; [lia|]. cbn [parse].
    destruct s as [|x s'] eqn:Es; [cbn; intuition congruence|]. rewrite <- Es in *.
    rewrite take_n_eq. destruct (Nat.leb 4 (length s)) eqn:E4; [|cbn; intuition congruence].
    apply Nat.leb_le in E4.
    assert (Hsk : (length (skipn 4 s) + 4 = length s)%nat) by (rewrite skipn_length; lia).
    destruct (unbe (firstn 4 s) =? 0); [cbn; intuition congruence|].
    destruct (max_frame <? unbe (firstn 4 s)).
    - unfold take_N. destruct (unbe (firstn 4 s) <=? N.of_nat (length (skipn 4 s))); [|cbn; intuition congruence].
      intros [E|E]; [congruence|]. revert E. apply IH. rewrite skipn_length. lia.
    - unfold take_N. destruct (unbe (firstn 4 s) <=? N.of_nat (length (skipn 4 s))); [|cbn; intuition congruence].
      intros [E|E]; [unfold on_body in E; destruct (dec _); congruence|]. revert E. apply IH.
      rewrite skipn_length. lia.
  Qed.

  (** THE chunking-independence theorem *)
  Lemma receive_chunking_independent chunks :
    receive dec chunks = receive_stream dec (concat chunks).
  Proof. unfold receive, receive_stream. now rewrite recv_parse. Qed.

  Lemma receive_no_fuel chunks : ~ In RFuel (receive dec chunks).
  Proof. rewrite receive_chunking_independent. apply parse_no_fuel. unfold fuel_for. lia. Qed.

  (** ---- one round on a stream that starts with a frame ---- *)
  Lemma frame_header (b rest : bytes) :
    N.of_nat (length b) < 4294967296 ->
    take_n 4 (frame b ++ rest) = Ok (put_u32 (N.of_nat (length b)), b ++ rest)
    /\ unbe (put_u32 (N.of_nat (length b))) = N.of_nat (length b).
  Proof.
    intros H. split.
    - unfold frame. rewrite <- app_assoc.
      pose proof (take_n_app (put_u32 (N.of_nat (length b))) (b ++ rest)) as T.
      unfold put_u32 in *. rewrite be_length in T. exact T.
    - unfold put_u32. apply unbe_be. cbn. lia.
  Qed.

  Lemma frame_nonempty b rest : frame b ++ rest <> [].
  Proof.
    unfold frame, put_u32. intros E. apply (f_equal (@length N)) in E.
    rewrite !app_length, be_length in E. cbn in E. lia.
  Qed.

  Lemma parse_unfold f s :
    s <> [] ->
    parse dec (S f) s =
    match take_n 4 s with
    | Err _ => [RTruncHdr]
    | Ok (h, t) =>
        let n := unbe h in
        if n =? 0 then [RClose]
        else if max_frame <? n then
          match take_N n t with
          | Err _ => [ROversize n; RTruncBody]
          | Ok (_, t') => ROversize n :: parse dec f t'
          end
        else match take_N n t with
             | Err _ => [RTruncBody]
             | Ok (b, t') => on_body dec b :: parse dec f t'
             end
    end.
  Proof. destruct s; [congruence|reflexivity]. Qed.

  Lemma parse_frame_step f b rest :
    1 <= N.of_nat (length b) <= max_frame ->
    parse dec (S f) (frame b ++ rest) = on_body dec b :: parse dec f rest.
  Proof.
    intros [H1 H2]. rewrite max_frame_val in H2.
    destruct (frame_header b rest ltac:(lia)) as [T U].
    rewrite parse_unfold by apply frame_nonempty. rewrite T. cbn zeta. rewrite U.
    replace (N.of_nat (length b) =? 0) with false by lia.
    replace (max_frame <? N.of_nat (length b)) with false by (rewrite max_frame_val; lia).
    now rewrite take_N_app.
  Qed.

  Lemma parse_close_step f rest : parse dec (S f) (frame [] ++ rest) = [RClose].
  Proof. reflexivity. Qed.

  (** the oversize branch: header AND body are consumed: the stream stays synchronised, nothing of the body
      is ever delivered *)
  Lemma parse_oversize_step f b rest :
    max_frame < N.of_nat (length b) < 4294967296 ->
    parse dec (S f) (frame b ++ rest) = ROversize (N.of_nat (length b)) :: parse dec f rest.
  Proof.
    intros [H1 H2]. rewrite max_frame_val in H1.
    destruct (frame_header b rest ltac:(lia)) as [T U].
    rewrite parse_unfold by apply frame_nonempty. rewrite T. cbn zeta. rewrite U.
    replace (N.of_nat (length b) =? 0) with false by lia.
    replace (max_frame <? N.of_nat (length b)) with true by (rewrite max_frame_val; lia).
    now rewrite take_N_app.
  Qed.

  Definition legal (b : bytes) : Prop := 1 <= N.of_nat (length b) <= max_frame.

  Lemma parse_frames : forall bodies f rest,
    Forall legal bodies -> (length bodies <= f)%nat ->
    parse dec f (concat (map frame bodies) ++ rest)
    = map (on_body dec) bodies ++ parse dec (f - length bodies) rest.
  Proof.
    induction bodies as [|b bs IH]; intros f rest HF Hf.
    - cbn. now rewrite Nat.sub_0_r.
    - inversion HF as [|? ? Hb Hbs]; subst. cbn [length] in Hf. destruct f as [|f]; [lia|].
      cbn [map concat]. rewrite <- app_assoc. rewrite parse_frame_step by exact Hb.
      rewrite IH by (auto; lia). reflexivity.
  Qed.

  Lemma frames_length_ge bodies : (length bodies <= length (concat (map frame bodies)))%nat.
  Proof.
    induction bodies as [|b bs IH]; cbn [map concat length]; [lia|].
    unfold frame at 1. rewrite !app_length. unfold put_u32. rewrite be_length. lia.
  Qed.

  Lemma receive_stream_frames bodies :
    Forall legal bodies ->
    receive_stream dec (concat (map frame bodies)) = map (on_body dec) bodies ++ [REof].
  Proof.
    intros HF. unfold receive_stream, fuel_for.
    rewrite <- (app_nil_r (concat (map frame bodies))) at 2.
    pose proof (frames_length_ge bodies) as L.
    rewrite parse_frames by (auto; lia).
    destruct (S (length (concat (map frame bodies))) - length bodies)%nat eqn:E; [lia|]. reflexivity.
  Qed.

  (** for ALL chunkings of the stream *)
  Lemma receive_frames bodies chunks :
    Forall legal bodies -> concat chunks = concat (map frame bodies) ->
    receive dec chunks = map (on_body dec) bodies ++ [REof].
  Proof. intros HF E. rewrite receive_chunking_independent, E. now apply receive_stream_frames. Qed.

  (** a strict prefix of a frame at the end of the stream is never delivered *)
  Lemma parse_partial f b (k : nat) :
    legal b -> (k < length (frame b))%nat -> (0 < f)%nat ->
    exists t, parse dec f (firstn k (frame b)) = [t] /\ (t = REof \/ t = RTruncHdr \/ t = RTruncBody).
  Proof.
    intros [H1 H2] Hk Hf. rewrite max_frame_val in H2. destruct f as [|f]; [lia|]. cbn [parse].
    assert (Lf : length (frame b) = (4 + length b)%nat) by (unfold frame, put_u32; now rewrite app_length, be_length).
    destruct (firstn k (frame b)) as [|x p] eqn:Ep; [eauto|]. rewrite <- Ep.
    rewrite take_n_eq. rewrite firstn_length, Nat.min_l by lia.
    destruct (Nat.leb 4 k) eqn:E4; [|eauto]. apply Nat.leb_le in E4.
    assert (Efirst : firstn 4 (firstn k (frame b)) = put_u32 (N.of_nat (length b))).
    { rewrite firstn_firstn, Nat.min_l by lia. unfold frame. rewrite firstn_app, firstn_all2 by (unfold put_u32; rewrite be_length; lia).
      unfold put_u32. rewrite be_length. cbn [Nat.sub firstn]. now rewrite app_nil_r. }
    rewrite Efirst. unfold put_u32. rewrite unbe_be by (cbn; lia).
    replace (N.of_nat (length b) =? 0) with false by lia.
    replace (max_frame <? N.of_nat (length b)) with false by (rewrite max_frame_val; lia).
    unfold take_N. rewrite skipn_length, firstn_length, Nat.min_l by lia.
    replace (N.of_nat (length b) <=? N.of_nat (k - 4)) with false by lia. eauto.
  Qed.

  Lemma delivered_app (a b : list (rev D)) : delivered (a ++ b) = delivered a ++ delivered b.
  Proof.
    induction a as [|x a IH]; [reflexivity|]. destruct x; cbn [app delivered]; rewrite IH; reflexivity.
  Qed.

  (** what the actor sees of a frame list: exactly the decodable bodies, in order (decode failures are skipped
      and do not stop later frames) *)
  Fixpoint decodable (bodies : list bytes) : list D :=
    match bodies with
    | [] => []
    | b :: r => match dec b with Some d => d :: decodable r | None => decodable r end
    end.

  Lemma delivered_on_body bodies : delivered (map (on_body dec) bodies) = decodable bodies.
  Proof.
    induction bodies as [|b bs IH]; [reflexivity|]. cbn [map decodable]. unfold on_body at 1.
    destruct (dec b); cbn [delivered]; now rewrite IH.
  Qed.

  Lemma receive_delivers bodies chunks :
    Forall legal bodies -> concat chunks = concat (map frame bodies) ->
    delivered (receive dec chunks) = decodable bodies.
  Proof.
    intros HF E. rewrite (receive_frames bodies chunks HF E), delivered_app, delivered_on_body.
    cbn. now rewrite app_nil_r.
  Qed.

  (** frames + a cut-off frame: the complete ones are delivered, nothing else *)
  Lemma receive_stream_frames_partial bodies b k :
    Forall legal bodies -> legal b -> (k < length (frame b))%nat ->
    delivered (receive_stream dec (concat (map frame bodies) ++ firstn k (frame b))) = decodable bodies.
  Proof.
    intros HF Hb Hk. unfold receive_stream, fuel_for.
    pose proof (frames_length_ge bodies) as L.
    rewrite parse_frames by (auto; rewrite app_length; lia).
    rewrite delivered_app, delivered_on_body.
    destruct (parse_partial (S (length (concat (map frame bodies) ++ firstn k (frame b))) - length bodies) b k Hb Hk) as (t & -> & Ht).
    { rewrite app_length. lia. }
    destruct Ht as [->|[->| ->]]; cbn; now rewrite app_nil_r.
  Qed.
End R.

(** ---- exactly once, in order, intact: codec round trip as the hypothesis ---- *)
Section Codec.
  Context {M : Type}.
  Variable enc : M -> bytes.
  Variable dec : bytes -> option M.
  Hypothesis codec_roundtrip : forall m, dec (enc m) = Some m.

  Lemma decodable_enc ms : decodable dec (map enc ms) = ms.
  Proof. induction ms as [|m ms IH]; [reflexivity|]. cbn [map decodable]. now rewrite codec_roundtrip, IH. Qed.

  Lemma exactly_once_in_order ms chunks :
    Forall (fun m => legal (enc m)) ms ->
    concat chunks = concat (map (fun m => frame (enc m)) ms) ->
    receive dec chunks = map RMsg ms ++ [REof] /\ delivered (receive dec chunks) = ms.
  Proof.
    intros HF E. assert (HF' : Forall legal (map enc ms)) by now apply Forall_map.
    rewrite <- map_map in E. split.
    - rewrite (receive_frames dec _ _ HF' E). f_equal. rewrite map_map. apply map_ext.
      intros m. unfold on_body. now rewrite codec_roundtrip.
    - rewrite (receive_delivers dec _ _ HF' E). apply decodable_enc.
  Qed.
End Codec.

(** ---- envelope ---- *)
Lemma put_lp4_length b : length (put_lp4 b) = (4 + length b)%nat.
Proof. unfold put_lp4, put_u32. now rewrite app_length, be_length. Qed.

Lemma env_encode_length e :
  length (env_encode e) =
  (25 + length (e_payload e) + length (e_name e) + length (e_saddr e) + length (e_spath e)
   + length (e_raddr e) + length (e_rpath e))%nat.
Proof. unfold env_encode. rewrite !app_length, !put_lp4_length. cbn [put_bool length]. lia. Qed.

Lemma env_encode_min e : 25 <= N.of_nat (length (env_encode e)).
Proof. rewrite env_encode_length. lia. Qed.

Lemma env_roundtrip e junk : env_len32 e -> env_parse (env_encode e ++ junk) = Ok e.
Proof.
  intros (H1 & H2 & H3 & H4 & H5 & H6). unfold env_parse, env_encode.
  repeat rewrite <- app_assoc.
  rewrite rd_lp4_put by assumption. cbn [bind].
  rewrite rd_lp4_put by assumption. cbn [bind].
  rewrite rd_bool_put. cbn [bind].
  rewrite rd_lp4_put by assumption. cbn [bind].
  rewrite rd_lp4_put by assumption. cbn [bind].
  rewrite rd_lp4_put by assumption. cbn [bind].
  rewrite rd_lp4_put by assumption. cbn [bind].
  now destruct e.
Qed.

Definition env_dec (b : bytes) : option env := match env_parse b with Ok e => Some e | Err _ => None end.

Lemma env_dec_enc e : env_len32 e -> env_dec (env_encode e) = Some e.
Proof. intros H. unfold env_dec. rewrite <- (app_nil_r (env_encode e)). now rewrite env_roundtrip. Qed.

(** the empty frame is the close handshake, and no envelope is empty: the two cannot collide *)
Lemma envelope_frame_not_close f e rest :
  N.of_nat (length (env_encode e)) <= max_frame ->
  exists ev, parse env_dec (S f) (frame (env_encode e) ++ rest) = ev :: parse env_dec f rest /\ ev <> RClose.
Proof.
  intros H. pose proof (env_encode_min e) as Hm.
  rewrite parse_frame_step by (split; lia). eexists; split; [reflexivity|].
  unfold on_body. destruct (env_dec _); congruence.
Qed.

(** ---- the sender never writes what the receiver rejects ---- *)
Lemma send_frame_legal b fr : send_frame b = Some fr -> legal b /\ fr = frame b.
Proof.
  unfold send_frame, legal. destruct (N.of_nat (length b) =? 0) eqn:E0; [discriminate|].
  destruct (max_frame <? N.of_nat (length b)) eqn:E1; [discriminate|]. cbn [orb].
  intros [= <-]. split; [lia|reflexivity].
Qed.

Lemma send_frame_refuses b : ~ legal b -> send_frame b = None.
Proof.
  unfold send_frame, legal. intros H.
  destruct (N.of_nat (length b) =? 0) eqn:E0; [reflexivity|].
  destruct (max_frame <? N.of_nat (length b)) eqn:E1; [reflexivity|]. lia.
Qed.

(** frames of any mix: legal ones are handed to the decoder, oversize ones (from a foreign writer) are skipped
    whole; nothing else comes out and the stream stays aligned *)
Definition wellformed (b : bytes) : Prop := 1 <= N.of_nat (length b) < 4294967296.
Definition on_frame {D} (dec : bytes -> option D) (b : bytes) : rev D :=
  if max_frame <? N.of_nat (length b) then ROversize (N.of_nat (length b)) else on_body dec b.

Lemma parse_frames_mixed {D} (dec : bytes -> option D) : forall bodies f rest,
  Forall wellformed bodies -> (length bodies <= f)%nat ->
  parse dec f (concat (map frame bodies) ++ rest)
  = map (on_frame dec) bodies ++ parse dec (f - length bodies) rest.
Proof.
  induction bodies as [|b bs IH]; intros f rest HF Hf.
  - cbn. now rewrite Nat.sub_0_r.
  - inversion HF as [|? ? Hb Hbs]; subst. cbn [length] in Hf. destruct f as [|f]; [lia|].
    cbn [map concat]. rewrite <- app_assoc. unfold on_frame at 1. destruct Hb as [Hb1 Hb2].
    destruct (max_frame <? N.of_nat (length b)) eqn:E.
    + rewrite parse_oversize_step by lia. rewrite IH by (auto; lia). reflexivity.
    + rewrite parse_frame_step by (unfold legal; lia). rewrite IH by (auto; lia). reflexivity.
Qed.

(** ---- handshake ---- *)
Lemma conn_receive_chunking_independent {D} (dec : bytes -> option D) chunks :
  conn_receive dec chunks = conn_receive_stream dec (concat chunks).
Proof.
  unfold conn_receive, conn_receive_stream, rd_u32, rd_uint.
  pose proof (read_full_spec 4 chunks []) as H4. cbn zeta in H4. cbn [app] in H4.
  set (s := concat chunks) in *. rewrite take_n_eq.
  destruct (4 <=? N.of_nat (length s)) eqn:E4.
  - destruct H4 as (buf1 & ch1 & -> & Hrest).
    replace (Nat.leb 4 (length s)) with true by (symmetry; apply Nat.leb_le; lia). cbn [bind].
    change (N.to_nat 4) with 4%nat in *.
    destruct (hs_max <? unbe (firstn 4 s)); [reflexivity|].
    set (n := unbe (firstn 4 s)).
    pose proof (read_full_spec n ch1 buf1) as Hn. cbn zeta in Hn. rewrite Hrest in Hn.
    unfold take_N. destruct (n <=? N.of_nat (length (skipn 4 s))) eqn:En.
    + destruct Hn as (buf2 & ch2 & -> & Hrest2). f_equal. rewrite recv_parse, Hrest2. reflexivity.
    + rewrite Hn. reflexivity.
  - rewrite H4. replace (Nat.leb 4 (length s)) with false by (symmetry; apply Nat.leb_gt; lia). reflexivity.
Qed.

Lemma conn_receive_stream_handshake {D} (dec : bytes -> option D) a rest :
  N.of_nat (length a) <= hs_max ->
  conn_receive_stream dec (handshake a ++ rest) = CConn a (receive_stream dec rest).
Proof.
  intros Ha. unfold hs_max in Ha. unfold conn_receive_stream, handshake, put_lp4. rewrite <- app_assoc.
  rewrite rd_u32_put by lia. replace (hs_max <? N.of_nat (length a)) with false by (unfold hs_max; lia).
  now rewrite take_N_app.
Qed.

(** a whole connection, ANY chunking of handshake ++ frames (splits inside the handshake, handshake coalesced
    with the first frames, ...) *)
Lemma conn_receive_frames {D} (dec : bytes -> option D) a bodies chunks :
  N.of_nat (length a) <= hs_max ->
  Forall legal bodies -> concat chunks = handshake a ++ concat (map frame bodies) ->
  conn_receive dec chunks = CConn a (map (on_body dec) bodies ++ [REof]).
Proof.
  intros Ha HF E. rewrite conn_receive_chunking_independent, E, conn_receive_stream_handshake by exact Ha.
  now rewrite receive_stream_frames.
Qed.

(** whole connection + codec round trip *)
Lemma conn_exactly_once {M} (enc : M -> bytes) (dec : bytes -> option M) :
  (forall m, dec (enc m) = Some m) ->
  forall a ms chunks,
  N.of_nat (length a) <= hs_max ->
  Forall (fun m => legal (enc m)) ms ->
  concat chunks = handshake a ++ concat (map (fun m => frame (enc m)) ms) ->
  conn_receive dec chunks = CConn a (map RMsg ms ++ [REof]).
Proof.
  intros Hrt a ms chunks Ha HF E. rewrite <- map_map in E.
  rewrite (conn_receive_frames dec a (map enc ms) chunks Ha (proj2 (Forall_map _ _ _) HF) E).
  f_equal. f_equal. rewrite map_map. apply map_ext. intros m. unfold on_body. now rewrite Hrt.
Qed.

(** mixed stream (legal, undecodable, oversize frames of a foreign writer), any chunking: exactly the decodable
    legal bodies reach the actor, in order; nothing else *)
Fixpoint accepted (bodies : list bytes) : list bytes :=
  match bodies with
  | [] => []
  | b :: r => if max_frame <? N.of_nat (length b) then accepted r else b :: accepted r
  end.

Lemma delivered_on_frame {D} (dec : bytes -> option D) bodies :
  delivered (map (on_frame dec) bodies) = decodable dec (accepted bodies).
Proof.
  induction bodies as [|b bs IH]; [reflexivity|]. cbn [map accepted]. unfold on_frame at 1.
  destruct (max_frame <? N.of_nat (length b)); cbn [delivered]; [exact IH|].
  cbn [decodable]. unfold on_body. destruct (dec b); cbn [delivered]; now rewrite IH.
Qed.

Lemma receive_mixed {D} (dec : bytes -> option D) bodies chunks :
  Forall wellformed bodies -> concat chunks = concat (map frame bodies) ->
  receive dec chunks = map (on_frame dec) bodies ++ [REof] /\
  delivered (receive dec chunks) = decodable dec (accepted bodies).
Proof.
  intros HF E. rewrite receive_chunking_independent, E. unfold receive_stream, fuel_for.
  rewrite <- (app_nil_r (concat (map frame bodies))) at 2 4.
  pose proof (frames_length_ge dec bodies) as L.
  rewrite parse_frames_mixed by (auto; lia).
  destruct (S (length (concat (map frame bodies))) - length bodies)%nat eqn:Ef; [lia|]. cbn [parse].
  split; [reflexivity|]. rewrite delivered_app, delivered_on_frame. cbn. now rewrite app_nil_r.
Qed.

(** ---- references ---- *)
Section RefsP.
  Variable norm_addr norm_path : bytes -> option bytes.
  Hypothesis norm_addr_idem : forall a a', norm_addr a = Some a' -> norm_addr a' = Some a'.
  Hypothesis norm_path_idem : forall p p', norm_path p = Some p' -> norm_path p' = Some p'.

  Lemma new_ref_idem a p r : new_ref norm_addr norm_path a p = Some r ->
    new_ref norm_addr norm_path (fst r) (snd r) = Some r.
  Proof.
    unfold new_ref. destruct (norm_addr a) as [a'|] eqn:Ea; [|discriminate].
    destruct (norm_path p) as [p'|] eqn:Ep; [|discriminate]. intros [= <-]. cbn.
    now rewrite (norm_addr_idem _ _ Ea), (norm_path_idem _ _ Ep).
  Qed.

  (** the strings the encoder writes are GetAddress()/GetPath() of refs made by NewRef; the receiver's
      HandleRemotingEnvelop rebuilds exactly those refs from the decoded envelope *)
  Lemma sender_ref e junk a1 p1 a2 p2 s r :
    new_ref norm_addr norm_path a1 p1 = Some s -> new_ref norm_addr norm_path a2 p2 = Some r ->
    e_saddr e = fst s -> e_spath e = snd s -> e_raddr e = fst r -> e_rpath e = snd r ->
    env_len32 e ->
    exists e', env_parse (env_encode e ++ junk) = Ok e' /\ handle_refs norm_addr norm_path e' = Some (s, r).
  Proof.
    intros Hs Hr E1 E2 E3 E4 HL. exists e. split; [now apply env_roundtrip|].
    unfold handle_refs. rewrite E1, E2, E3, E4.
    now rewrite (new_ref_idem _ _ _ Hs), (new_ref_idem _ _ _ Hr).
  Qed.
End RefsP.

(** concrete envelopes (user AND system messages: the system flag, the message name and the four reference
    strings are fields of the envelope): exactly once, in order, every field intact, any chunking *)
Lemma envelopes_exactly_once (es : list env) (chunks : list bytes) :
  Forall env_len32 es ->
  Forall (fun e => N.of_nat (length (env_encode e)) <= max_frame) es ->
  concat chunks = concat (map (fun e => frame (env_encode e)) es) ->
  receive env_dec chunks = map RMsg es ++ [REof] /\ delivered (receive env_dec chunks) = es.
Proof.
  intros H32 Hmax E. rewrite <- map_map in E.
  assert (HF : Forall legal (map env_encode es)).
  { apply Forall_map. apply Forall_forall. intros e He. rewrite Forall_forall in Hmax.
    split; [pose proof (env_encode_min e); lia|now apply Hmax]. }
  assert (Hmap : map (on_body env_dec) (map env_encode es) = map RMsg es).
  { rewrite map_map. apply map_ext_in. intros e He. unfold on_body.
    rewrite Forall_forall in H32. now rewrite (env_dec_enc e (H32 e He)). }
  split.
  - rewrite (receive_frames env_dec _ _ HF E). now rewrite Hmap.
  - rewrite (receive_frames env_dec _ _ HF E), delivered_app, Hmap. cbn. rewrite app_nil_r.
    clear. induction es as [|e es IH]; [reflexivity|]. cbn. now rewrite IH.
Qed.

Lemma system_refs (norm_addr norm_path : bytes -> option bytes) :
  (forall a a', norm_addr a = Some a' -> norm_addr a' = Some a') ->
  (forall p p', norm_path p = Some p' -> norm_path p' = Some p') ->
  forall (e : env) (junk a1 p1 a2 p2 : bytes) (s r : bytes * bytes),
    e_system e = true ->
    new_ref norm_addr norm_path a1 p1 = Some s ->
    new_ref norm_addr norm_path a2 p2 = Some r ->
    e_saddr e = fst s -> e_spath e = snd s -> e_raddr e = fst r -> e_rpath e = snd r ->
    env_len32 e ->
    exists e', env_parse (env_encode e ++ junk) = Ok e' /\ e_system e' = true /\
               handle_refs norm_addr norm_path e' = Some (s, r).
Proof.
  intros Ha Hp e junk a1 p1 a2 p2 s r Hsys Hs Hr E1 E2 E3 E4 HL.
  destruct (sender_ref norm_addr norm_path Ha Hp e junk a1 p1 a2 p2 s r Hs Hr E1 E2 E3 E4 HL) as (e' & P & Hh).
  exists e'. rewrite (env_roundtrip e junk HL) in P. injection P as <-. repeat split; auto.
  now apply env_roundtrip.
Qed.
