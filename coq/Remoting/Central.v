(** internal/remoting/mailbox_central.go: the per-address table of outbound mailboxes, and the callers around it.

      func (rmc *MailboxCentral) GetOrCreate(addr, handler) *Mailbox {
          rmc.lock.Lock(); defer rmc.lock.Unlock()
          m, ok := rmc.mailboxes[addr]
          if !ok { m = newMailbox(...); rmc.mailboxes[addr] = m }
          return m }

    The whole body runs under rmc.lock: ONE atomic get-or-insert ([get_or_create]).  A sender (System.findMailbox for
    a ref with a foreign address, called by every Tell / Ask / Reply / system message) first obtains the mailbox and
    then calls its Enqueue, which holds that mailbox's connectionLock from the first to the last byte of the frame
    (Remoting/Link.v): the second atomic step.  Between the two steps of one sender any number of steps of other
    senders may happen: [run] executes an ARBITRARY schedule over any number of sender threads.

    A mailbox is identified by its creation index (the table is kept in creation order).  [box_log id] of a mailbox
    is the sequence of Enqueue calls it served, i.e. (on a healthy link, Frame.v) the sequence of frames on its one
    connection, i.e. what the remote system delivers, in that order (C11_exactly_once_in_order). *)
From Coq Require Import List NArith Bool.
Import ListNotations.

Section Central.
  Context {A M : Type}.                   (* addresses, messages *)
  Variable eqb : A -> A -> bool.

  Notation table := (list (A * nat)).     (* rmc.mailboxes: address -> mailbox (creation index) *)

  Fixpoint lookup (a : A) (t : table) : option nat :=
    match t with
    | [] => None
    | (b, id) :: r => if eqb b a then Some id else lookup a r
    end.

  (** GetOrCreate: the table after the call and the mailbox returned *)
  Definition get_or_create (a : A) (t : table) : table * nat :=
    match lookup a t with
    | Some id => (t, id)
    | None => (t ++ [(a, length t)], length t)
    end.

  (** one Enqueue: which mailbox served it, who sent (thread), to which address the sender wanted to send, what *)
  Record entry : Type := { e_box : nat; e_from : nat; e_addr : A; e_msg : M }.

  Record thread : Type := {
    t_todo : list (A * M);                 (* the sends still to do, in program order *)
    t_hold : option (nat * A * M);         (* findMailbox has returned this mailbox; Enqueue not yet done *)
  }.

  (** [cs_log]: all Enqueue calls in the order in which they happened.  Each holds its mailbox's connectionLock from
      the first to the last byte of its frame, so the Enqueues of ONE mailbox are totally ordered and that order is the
      order of the frames on its connection: the log of a mailbox is the sublist of its entries. *)
  Record cstate : Type := {
    cs_tbl : table;
    cs_log : list entry;
    cs_thr : list thread;
  }.

  Definition init (progs : list (list (A * M))) : cstate :=
    {| cs_tbl := []; cs_log := []; cs_thr := map (fun p => {| t_todo := p; t_hold := None |}) progs |}.

  Fixpoint set_nth {X} (n : nat) (x : X) (l : list X) : list X :=
    match l, n with
    | [], _ => []
    | _ :: r, O => x :: r
    | y :: r, S n' => y :: set_nth n' x r
    end.

  (** one atomic step of sender thread [i] *)
  Definition step (i : nat) (s : cstate) : cstate :=
    match nth_error (cs_thr s) i with
    | None => s
    | Some th =>
        match t_hold th with
        | Some (id, a, m) =>
            (* Mailbox.Enqueue under connectionLock *)
            {| cs_tbl := cs_tbl s;
               cs_log := cs_log s ++ [{| e_box := id; e_from := i; e_addr := a; e_msg := m |}];
               cs_thr := set_nth i {| t_todo := t_todo th; t_hold := None |} (cs_thr s) |}
        | None =>
            match t_todo th with
            | [] => s
            | (a, m) :: rest =>
                (* MailboxCentral.GetOrCreate under rmc.lock *)
                let (t', id) := get_or_create a (cs_tbl s) in
                {| cs_tbl := t'; cs_log := cs_log s;
                   cs_thr := set_nth i {| t_todo := rest; t_hold := Some (id, a, m) |} (cs_thr s) |}
            end
        end
    end.

  Definition run (sched : list nat) (s : cstate) : cstate := fold_left (fun s i => step i s) sched s.

  Definition finished (s : cstate) : Prop := Forall (fun th => t_todo th = [] /\ t_hold th = None) (cs_thr s).

  (** the frames on the connection of mailbox [id], in wire order *)
  Definition box_log (id : nat) (l : list entry) : list entry := filter (fun e => Nat.eqb (e_box e) id) l.

  (** the log of the mailbox that serves address [a] (empty when nobody ever asked for it) *)
  Definition log_of (a : A) (s : cstate) : list entry :=
    match lookup a (cs_tbl s) with Some id => box_log id (cs_log s) | None => [] end.

  (** what sender [i] got through, in wire order *)
  Definition sent_by (i : nat) (l : list entry) : list M :=
    map e_msg (filter (fun e => Nat.eqb (e_from e) i) l).

  (** the messages of a program addressed to [a], in program order *)
  Definition to_addr (a : A) (p : list (A * M)) : list M :=
    map snd (filter (fun x => eqb (fst x) a) p).

  (** ---- the variant the theorem excludes (NOT the code): lookup and insert are two steps and the loser of a
      concurrent first contact keeps the mailbox it made for itself (a lock-free table whose LoadOrStore result is
      ignored).  Thread state: additionally "looked up, found nothing, about to insert". ---- *)
  Record othread : Type := {
    o_todo : list (A * M);
    o_miss : option (A * M);               (* Load missed; newMailbox done; LoadOrStore not yet *)
    o_hold : option (nat * A * M);
  }.
  Record ostate : Type := { os_tbl : table; os_made : nat; os_log : list entry; os_thr : list othread }.

  Definition oinit (progs : list (list (A * M))) : ostate :=
    {| os_tbl := []; os_made := 0; os_log := [];
       os_thr := map (fun p => {| o_todo := p; o_miss := None; o_hold := None |}) progs |}.

  Definition ostep (i : nat) (s : ostate) : ostate :=
    match nth_error (os_thr s) i with
    | None => s
    | Some th =>
        match o_hold th, o_miss th with
        | Some (id, a, m), _ =>
            {| os_tbl := os_tbl s; os_made := os_made s;
               os_log := os_log s ++ [{| e_box := id; e_from := i; e_addr := a; e_msg := m |}];
               os_thr := set_nth i {| o_todo := o_todo th; o_miss := None; o_hold := None |} (os_thr s) |}
        | None, Some (a, m) =>
            (* LoadOrStore: stores only when absent; the caller returns ITS OWN new mailbox either way *)
            let id := os_made s in
            {| os_tbl := match lookup a (os_tbl s) with Some _ => os_tbl s | None => os_tbl s ++ [(a, id)] end;
               os_made := S id; os_log := os_log s;
               os_thr := set_nth i {| o_todo := o_todo th; o_miss := None; o_hold := Some (id, a, m) |} (os_thr s) |}
        | None, None =>
            match o_todo th with
            | [] => s
            | (a, m) :: rest =>
                match lookup a (os_tbl s) with
                | Some id => {| os_tbl := os_tbl s; os_made := os_made s; os_log := os_log s;
                                os_thr := set_nth i {| o_todo := rest; o_miss := None; o_hold := Some (id, a, m) |} (os_thr s) |}
                | None => {| os_tbl := os_tbl s; os_made := os_made s; os_log := os_log s;
                             os_thr := set_nth i {| o_todo := rest; o_miss := Some (a, m); o_hold := None |} (os_thr s) |}
                end
            end
        end
    end.
  Definition orun (sched : list nat) (s : ostate) : ostate := fold_left (fun s i => ostep i s) sched s.
End Central.

Arguments entry : clear implicits.
Arguments thread : clear implicits.
Arguments cstate : clear implicits.
Arguments othread : clear implicits.
Arguments ostate : clear implicits.

(** sequential use (the correspondence check): the mailbox index every call of a list of GetOrCreate calls returns *)
Fixpoint central_ids {A} (eqb : A -> A -> bool) (calls : list A) (t : list (A * nat)) : list nat :=
  match calls with
  | [] => []
  | a :: r => let (t', id) := get_or_create eqb a t in id :: central_ids eqb r t'
  end.
