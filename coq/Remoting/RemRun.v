(** Executable entry points of the remoting models for the correspondence check.

    run_frame: (0 conns)  with conn = (whole? chunks): the exact byte stream the harness proxy handed to a real
      system on each connection, cut into the chunks it was written in.  whole = 1: the stream starts with the
      handshake; whole = 0: it starts at a frame boundary.  Output: what the receiving side observed:
      (deliveries to /recv, number of decoded frames, decode-failure sizes, invalid lengths), connections in order.
    run_link: (1 limit first msgs conns): the sender machine on a list of Enqueue calls, each with the answers the
      environment gave (as arranged by the proxy / observed), from a state with no connection or a connection that
      will be cut after [cap] bytes; output per call (RetryCounts of the connection-failed events, number of
      send-failed events, sent?, dead letter?, dials), the byte count of every connection, and the receiver part
      as for run_frame.
    churn: (2 paths steps): Remoting/Churn.v on a script of spawn / kill / restart steps of the receiving system
      interleaved with the reads of ONE connection (each traffic step starts at a frame boundary); output: the
      connection's counters as for run_frame, then per path the deliveries (incarnation, epoch, message) and the
      dead letters, in order.
    run_frame / run_link with a trailing [refs] element ((0 conns refs), (1 limit first msgs conns refs)): a table
      (address, path, accepted?) of what actor.NewRef answered for the reference strings of INJECTED envelopes; a
      decoded frame whose sender or receiver reference NewRef rejects counts as decoded (RemotingMessageReceivedEvent)
      but is not delivered (HandleRemotingEnvelop returns an error), and the reader goes on.  Pairs that are not
      listed are accepted (what two vivid systems send each other always is).
    backoff: (4 cfg ops): Remoting/Backoff.v's object on a list of Next(draw) / Reset / GetAttempt calls from a new
      object; (5 cfg limit outs elapsed draw): one Try on a new object with the scripted outcomes of fn (and the random
      integers of the Next() calls in between), then one more Next(draw): (returned abort err seen #sleeps
      elapsed>=sum-of-sleeps? attempt-after next-delay); (7 which): the configuration of the object vivid constructs
      for a remote mailbox (0) / the server actor (1); (8 cfg ks delays): is every delay in the interval of its attempt?
      (9 cfg n elapsed): elapsed >= sum of the lower interval ends of the attempts 0 .. n-1?
    accept: (10 events): Remoting/Accept.v on a history of accepted connections (0 peer frames-written), kernel connection gone (1 peer),
      reader actor ended (2 peer): per connection (written, read).
    central: (6 addrs): Remoting/Central.v's table on a list of GetOrCreate calls: the mailbox index each returns. *)
From Coq Require Import List NArith ZArith Bool.
From Vivid Require Import Base.Tm Codec.Prim Remoting.Frame Remoting.Link Remoting.Churn Remoting.Backoff.
From Vivid Require Remoting.Central Remoting.Accept.
Import ListNotations.
Local Open Scope N_scope.

(** the harness codec (harness/cmd/remoting/sys.go xcodec): 'V' 'X' kind sender(4) seq(8) data *)
Definition cksum (b : bytes) : N := fold_left (fun a x => (a * 31 + x) mod 4294967291) b 0.

Record hmsg : Type := { h_rpath : bytes; h_kind : N; h_sender : N; h_seq : N; h_len : N; h_sum : N;
                        h_saddr : bytes; h_spath : bytes; h_raddr : bytes }.

Definition hdec (body : bytes) : option hmsg :=
  match env_parse body with
  | Err _ => None
  | Ok e =>
      match e_payload e with
      | 86 :: 88 :: k :: r =>
          match take_n 4 r with
          | Ok (sd, r1) =>
              match take_n 8 r1 with
              | Ok (sq, data) =>
                  Some {| h_rpath := e_rpath e; h_kind := k; h_sender := unbe sd; h_seq := unbe sq;
                          h_len := N.of_nat (length data); h_sum := cksum data;
                          h_saddr := e_saddr e; h_spath := e_spath e; h_raddr := e_raddr e |}
              | Err _ => None
              end
          | Err _ => None
          end
      | _ => None
      end
  end.

(* bytes_eqb: Remoting/Churn.v *)

Definition recv_path : bytes := [47; 114; 101; 99; 118].    (* "/recv" *)

Definition t_hmsg (m : hmsg) : tm := TL [TN (h_kind m); TN (h_sender m); TN (h_seq m); TN (h_len m); TN (h_sum m)].

Record obs : Type := { o_dl : list tm; o_dec : N; o_df : list tm; o_ov : list tm; o_bad : bool }.
Definition obs0 : obs := {| o_dl := []; o_dec := 0; o_df := []; o_ov := []; o_bad := false |}.

(** what actor.NewRef answered for (address, path); unlisted pairs are accepted *)
Notation reftab := (list (bytes * bytes * bool)).
Fixpoint ref_ok (t : reftab) (a p : bytes) : bool :=
  match t with
  | [] => true
  | (a', p', ok) :: r => if bytes_eqb a' a && bytes_eqb p' p then ok else ref_ok r a p
  end.
(** System.HandleRemotingEnvelop returns nil: both references are rebuilt *)
Definition routable (t : reftab) (m : hmsg) : bool :=
  ref_ok t (h_saddr m) (h_spath m) && ref_ok t (h_raddr m) (h_rpath m).

Fixpoint observe_t (t : reftab) (evs : list (rev hmsg)) (o : obs) : obs :=
  match evs with
  | [] => o
  | e :: r =>
      observe_t t r
        match e with
        | RMsg m => {| o_dl := if routable t m && bytes_eqb (h_rpath m) recv_path then o_dl o ++ [t_hmsg m] else o_dl o;
                       o_dec := o_dec o + 1; o_df := o_df o; o_ov := o_ov o; o_bad := o_bad o |}
        | RDecodeFail n => {| o_dl := o_dl o; o_dec := o_dec o; o_df := o_df o ++ [TN n]; o_ov := o_ov o; o_bad := o_bad o |}
        | ROversize n => {| o_dl := o_dl o; o_dec := o_dec o; o_df := o_df o; o_ov := o_ov o ++ [TN n]; o_bad := o_bad o |}
        | RFuel => {| o_dl := o_dl o; o_dec := o_dec o; o_df := o_df o; o_ov := o_ov o; o_bad := true |}
        | _ => o
        end
  end.
Definition observe := observe_t [].

Definition get_conn (t : tm) : option (bool * list bytes) := get_pair get_bool (get_list get_b) t.

Definition observe_conn_t (t : reftab) (o : obs) (c : bool * list bytes) : obs :=
  let (whole, chunks) := c in
  if whole then
    match conn_receive hdec chunks with
    | CNoHandshake => o
    | CConn _ evs => observe_t t evs o
    end
  else observe_t t (receive hdec chunks) o.
Definition observe_conn := observe_conn_t [].

Definition get_ref (t : tm) : option (bytes * bytes * bool) :=
  match t with
  | TL [TB a; TB p; ok] => match get_bool ok with Some b => Some (a, p, b) | None => None end
  | _ => None
  end.

Definition t_obs (o : obs) : tm :=
  if o_bad o then tm_err 7 else TL [TL (o_dl o); TN (o_dec o); TL (o_df o); TL (o_ov o)].

(** ---- link ---- *)
Definition get_connect (n : N) (cap : option N) : option connect_result :=
  match n with
  | 0 => Some CRefused | 1 => Some CHandshakeFail | 2 => Some CStoppedAfter | 3 => Some CRegisterFail
  | 4 => Some (COk cap) | _ => None
  end.
Definition get_optn (t : tm) : option (option N) :=
  match t with TL [] => Some None | TL [TN n] => Some (Some n) | _ => None end.
Definition get_answers (t : tm) : option answers :=
  match t with
  | TL [st; TN cn; cap; cl; we] =>
      match get_bool st, get_optn cap, get_bool cl, get_bool we with
      | Some st, Some cap, Some cl, Some we =>
          match get_connect cn cap with
          | Some c => Some {| a_stopped := st; a_connect := c; a_closed := cl; a_werr := we |}
          | None => None
          end
      | _, _, _, _ => None
      end
  | _ => None
  end.

(** a message is represented by the length of its frame (0 = the encoder refuses it); the bytes do not matter for
    the sender's control flow *)
Definition len_encode (m : N) : option bytes :=
  if m <=? 4 then None else Some (repeat 0 (N.to_nat (m - 4))).

Fixpoint count_lab (f : label -> bool) (l : list label) : N :=
  match l with [] => 0 | x :: r => (if f x then 1 else 0) + count_lab f r end.
Fixpoint retry_counts (l : list label) : list tm :=
  match l with
  | [] => []
  | LConnFailed n :: r => TN n :: retry_counts r
  | _ :: r => retry_counts r
  end.

Fixpoint run_calls (limit : N) (calls : list (N * list answers)) (s : @st N) : list tm * @st N :=
  match calls with
  | [] => ([], s)
  | (m, ans) :: r =>
      let n0 := length (trace s) in
      let '(s1, _, ok) := try_loop len_encode limit m ans s in
      let tr := skipn n0 (trace s1) in
      let t := if ok then
                 TL [TL (retry_counts tr);
                     TN (count_lab (fun x => match x with LSendFailed => true | _ => false end) tr);
                     TN (count_lab (fun x => match x with LSent _ => true | _ => false end) tr);
                     TN (count_lab (fun x => match x with LDead => true | _ => false end) tr);
                     TN (count_lab (fun x => match x with LDial => true | _ => false end) tr)]
               else tm_err 8 in
      let (ts, s2) := run_calls limit r s1 in (t :: ts, s2)
  end.

Definition get_call (t : tm) : option (N * list answers) := get_pair get_n (get_list get_answers) t.

(** ---- receiver churn (Remoting/Churn.v) ---- *)
Definition get_step (t : tm) : option step :=
  match t with
  | TL [TN 0; TB p; TN inc] => Some (SSpawn p inc)
  | TL [TN 1; TB p] => Some (SKill p)
  | TL [TN 2; TB p] => Some (SRestart p)
  | TL [TN 3; chunks] => match get_list get_b chunks with Some ch => Some (STraffic ch) | None => None end
  | _ => None
  end.

Definition t_churn_path (os : list (@outcome hmsg)) (p : bytes) : tm :=
  TL [TL (map (fun x : inst * hmsg => TL [TN (i_inc (fst x)); TN (i_epoch (fst x)); t_hmsg (snd x)]) (delivered_at p os));
      TL (map t_hmsg (dead_at p os))].

(** ---- back-off (Remoting/Backoff.v) ---- *)
Definition get_cfg (t : tm) : option bo_cfg :=
  match t with
  | TL [TN i; TN m; j] => match get_bool j with
                          | Some b => Some {| bo_init := Z.of_N i; bo_max := Z.of_N m; bo_jitter := b |}
                          | None => None
                          end
  | _ => None
  end.
Definition get_bo_op (t : tm) : option bo_op :=
  match t with
  | TL [TN 0; TN r] => Some (BNext (Z.of_N r))
  | TL [TN 1] => Some BReset
  | TL [TN 2] => Some BGet
  | _ => None
  end.
Definition t_bo_res (r : bo_res) : tm :=
  match r with
  | RDelay d => TN (Z.to_N d)
  | RUnit => TL []
  | RAttempt k => TL [TN k]
  end.
Definition get_fn_out (t : tm) : option fn_out :=
  match t with
  | TL [a; e; TN r] => match get_bool a, get_bool e with
                       | Some a, Some e => Some {| fo_abort := a; fo_err := e; fo_draw := Z.of_N r |}
                       | _, _ => None
                       end
  | _ => None
  end.

(** ---- reader actors of accepted connections (Remoting/Accept.v) ---- *)
Definition get_aev (t : tm) : option Accept.aev :=
  match t with
  | TL [TN 0; TB p; TN n] => Some (Accept.AAccept p n)
  | TL [TN 1; TB p] => Some (Accept.AGone p)
  | TL [TN 2; TB p] => Some (Accept.AReaderEnd p)
  | _ => None
  end.

Definition run_remoting (t : tm) : tm :=
  match t with
  | TL [TN 0; conns] =>
      match get_list get_conn conns with
      | Some cs => t_obs (fold_left observe_conn cs obs0)
      | None => tm_err 1
      end
  | TL [TN 1; TN limit; first; calls; conns] =>
      match get_optn first, get_list get_call calls, get_list get_conn conns with
      | Some None, Some calls, Some cs =>
          let (ts, s) := run_calls limit calls init in
          TL [TL ts; TL (map (fun w => TN (N.of_nat (length w))) (wires s)); t_obs (fold_left observe_conn cs obs0)]
      | Some (Some cap), Some calls, Some cs =>
          let s0 := {| cur := Some {| c_cap := Some cap; c_wire := [] |}; old := []; attempt := 0; dead := []; trace := [] |} in
          let (ts, s) := run_calls limit calls s0 in
          TL [TL ts; TL (map (fun w => TN (N.of_nat (length w))) (wires s)); t_obs (fold_left observe_conn cs obs0)]
      | _, _, _ => tm_err 1
      end
  | TL [TN 2; paths; steps] =>
      (* receiver churn: per path of [paths] (who received what, what was dead-lettered), after the connection's
         counters (deliveries to /recv, decoded frames, decode failures, invalid lengths) *)
      match get_list get_b paths, get_list get_step steps with
      | Some ps, Some ss =>
          let os := run_churn hdec h_rpath ss [] in
          TL [t_obs (observe (churn_events hdec ss) obs0); TL (map (t_churn_path os) ps)]
      | _, _ => tm_err 1
      end
  | TL [TN 3; paths; steps] =>
      (* name reuse under mixed traffic (C15: the stream also carries system envelopes - Watch, Ping, Kill - which the
         harness codec does not decode and which are no deliveries of the script's messages): per path of [paths] only *)
      match get_list get_b paths, get_list get_step steps with
      | Some ps, Some ss => TL (map (t_churn_path (run_churn hdec h_rpath ss [])) ps)
      | _, _ => tm_err 1
      end
  | TL [TN 0; conns; refs] =>
      match get_list get_conn conns, get_list get_ref refs with
      | Some cs, Some rt => t_obs (fold_left (observe_conn_t rt) cs obs0)
      | _, _ => tm_err 1
      end
  | TL [TN 1; TN limit; first; calls; conns; refs] =>
      match get_optn first, get_list get_call calls, get_list get_conn conns, get_list get_ref refs with
      | Some first, Some calls, Some cs, Some rt =>
          let s0 := match first with
                    | None => init
                    | Some cap => {| cur := Some {| c_cap := Some cap; c_wire := [] |}; old := []; attempt := 0; dead := []; trace := [] |}
                    end in
          let (ts, s) := run_calls limit calls s0 in
          TL [TL ts; TL (map (fun w => TN (N.of_nat (length w))) (wires s)); t_obs (fold_left (observe_conn_t rt) cs obs0)]
      | _, _, _, _ => tm_err 1
      end
  | TL [TN 4; cfg; ops] =>
      match get_cfg cfg, get_list get_bo_op ops with
      | Some c, Some os => TL (map t_bo_res (snd (bo_run c 0 os)))
      | _, _ => tm_err 1
      end
  | TL [TN 5; cfg; limit; outs; TN elapsed; TN draw] =>
      match get_cfg cfg, get_z limit, get_list get_fn_out outs with
      | Some c, Some l, Some os =>
          let t := bo_try c l os 0 in
          TL [tbool (tr_returned t); tbool (tr_abort t); tbool (tr_err t); TL (map TN (tr_seen t));
              TN (N.of_nat (length (tr_sleeps t))); tbool (sum_z (tr_sleeps t) <=? Z.of_N elapsed)%Z;
              TN (tr_after t); TN (Z.to_N (bo_next c (tr_after t) (Z.of_N draw)))]
      | _, _, _ => tm_err 1
      end
  | TL [TN 6; addrs] =>
      match get_list get_b addrs with
      | Some l => TL (map (fun i => TN (N.of_nat i)) (Central.central_ids bytes_eqb l []))
      | None => tm_err 1
      end
  | TL [TN 7; TN which] =>
      let c := if which =? 0 then mailbox_cfg else server_cfg in
      TL [TN (Z.to_N (bo_init c)); TN (Z.to_N (bo_max c)); TN 2; tbool (bo_jitter c)]
  | TL [TN 8; cfg; ks; ds] =>
      match get_cfg cfg, get_list get_n ks, get_list get_n ds with
      | Some c, Some ks, Some ds =>
          TL (map (fun kd : N * N => tbool ((bo_lo c (fst kd) <=? Z.of_N (snd kd))%Z && (Z.of_N (snd kd) <=? bo_hi c (fst kd))%Z)) (combine ks ds))
      | _, _, _ => tm_err 1
      end
  | TL [TN 10; evs] =>
      (* Remoting/Accept.v: per accepted connection (frames written by the dialler, frames read by the receiving system) *)
      match get_list get_aev evs with
      | Some l => TL (map (fun x : bytes * N * N => TL [TN (snd (fst x)); TN (snd x)]) (Accept.accept_run l []))
      | None => tm_err 1
      end
  | TL [TN 9; cfg; TN n; TN elapsed] =>
      (* a call that slept for the attempts 0 .. n-1 cannot have taken less than the sum of the lower interval ends *)
      match get_cfg cfg with
      | Some c => tbool (sum_lo c 0 (N.to_nat n) <=? Z.of_N elapsed)%Z
      | None => tm_err 1
      end
  | _ => tm_err 0
  end.

Definition run_frame := run_remoting.
Definition run_link := run_remoting.
Definition run_transparency := run_remoting.
