(** The receiving side's table of connection reader actors (internal/remoting/server_actor.go onConnection,
    server_accept_actor.go onAccept, tcp_connection.go onReadConn), as the code is since /repo c1a2e19.

      onAccept        conn := listener.Accept(); go { handshake (the DIALLER's handshake completes here);
                                                      Ask(parent, connActor) ; on error: Close }
      onConnection    name := "accept-" + conn.RemoteAddr().String()            (the peer's ip:port)
                      ref, err := ctx.ActorOf(connection, WithActorName(name))
                      if err != nil { log "connection handshake failed"; return }   // no Reply, nobody reads the socket
      onReadConn      one frame per actor message; at the END of the stream - io.EOF (peer closed with FIN at a frame
                      boundary; killed since c1a2e19, before that the actor stayed for ever: defect C14-accept-name-collision,
                      fixed), any other read error (reset, FIN inside a frame), the zero-length close frame - ctx.Kill:
                      the actor terminates and its name is released.
    Three things happen to a connection from peer address p, in this order or interleaved with those of its successor:
      [AAccept p n]    the kernel has accepted it, the handshake is done, onConnection tries to register its reader
                       (the dialler then writes n frames into it);
      [AGone p]        the kernel's connection is gone (FIN + close, RST): from now on the kernel accepts a NEW connection
                       from the same ip:port;
      [AReaderEnd p]   the registered reader of p has worked through everything that was queued for it, has seen the end of
                       its stream, is killed and deregistered.
    [AGone] and [AReaderEnd] are independent: after a RST the bytes already queued in the socket are still read, frame by
    frame, one actor message each, before the reader sees the error - while the kernel already accepts the successor. *)
From Coq Require Import List NArith Bool.
From Vivid Require Import Codec.Prim Remoting.Churn.
Import ListNotations.

Inductive aev : Type :=
| AAccept (peer : bytes) (frames : N)
| AGone (peer : bytes)
| AReaderEnd (peer : bytes).

(** names of the registered reader actors *)
Notation areg := (list bytes).

Fixpoint reg_mem (p : bytes) (r : areg) : bool :=
  match r with [] => false | q :: t => bytes_eqb q p || reg_mem p t end.
Fixpoint reg_del (p : bytes) (r : areg) : areg :=
  match r with [] => [] | q :: t => if bytes_eqb q p then reg_del p t else q :: reg_del p t end.

(** per accepted connection: (peer, frames written by the dialler, frames read by the receiving system) *)
Fixpoint accept_run (evs : list aev) (r : areg) : list (bytes * N * N) :=
  match evs with
  | [] => []
  | AAccept p n :: t =>
      if reg_mem p r then (p, n, 0%N) :: accept_run t r            (* ActorOf fails: nobody reads *)
      else (p, n, n) :: accept_run t (p :: r)
  | AGone _ :: t => accept_run t r
  | AReaderEnd p :: t => accept_run t (reg_del p r)
  end.

(** TCP: a connection from p is accepted only while the kernel holds no earlier connection from p *)
Fixpoint tcp_ok (evs : list aev) (open : areg) : bool :=
  match evs with
  | [] => true
  | AAccept p _ :: t => negb (reg_mem p open) && tcp_ok t (p :: open)
  | AGone p :: t => reg_mem p open && tcp_ok t (reg_del p open)
  | AReaderEnd _ :: t => tcp_ok t open
  end.

(** has the reader of the latest connection from p not yet reached the end of its stream?  (a scan of the history:
    the last event of p among accept / reader-end decides) *)
Fixpoint reader_pending (p : bytes) (evs : list aev) (b : bool) : bool :=
  match evs with
  | [] => b
  | AAccept q _ :: t => reader_pending p t (if bytes_eqb q p then true else b)
  | AGone _ :: t => reader_pending p t b
  | AReaderEnd q :: t => reader_pending p t (if bytes_eqb q p then false else b)
  end.

Fixpoint accepts (evs : list aev) : nat :=
  match evs with [] => O | AAccept _ _ :: t => S (accepts t) | _ :: t => accepts t end.

(** every connection is accepted only after the reader of its predecessor from the same peer address has ended *)
Fixpoint prompt (evs : list aev) (seen : list aev) : Prop :=
  match evs with
  | [] => True
  | AAccept p n :: t => reader_pending p seen false = false /\ prompt t (seen ++ [AAccept p n])
  | e :: t => prompt t (seen ++ [e])
  end.

Definition all_read (l : list (bytes * N * N)) : Prop := Forall (fun x => snd x = snd (fst x)) l.
