(** Lemmas about Remoting/Backoff.v: rounding, exactness of the capped exponential, the jitter interval, Try. *)
From Coq Require Import List ZArith NArith Lia Bool.
From Vivid Require Import Remoting.Backoff.
Import ListNotations.
Local Open Scope Z_scope.

(** ---- rn53 ---- *)
Lemma pow2_pos k : 0 <= k -> 0 < 2 ^ k.
Proof. intros. apply Z.pow_pos_nonneg; lia. Qed.

Lemma rn53_pos_small x : 0 <= x < 2 ^ 53 -> rn53_pos x = x.
Proof.
  intros [H0 H1]. unfold rn53_pos.
  assert (Z.log2 x + 1 - 53 <= 0).
  { destruct (Z.eq_dec x 0) as [->|Hn]; [cbn; lia|].
    assert (Z.log2 x < 53) by (apply Z.log2_lt_pow2; lia). lia. }
  destruct (Z.leb_spec (Z.log2 x + 1 - 53) 0); [reflexivity|lia].
Qed.

(** the three shapes of the result *)
Lemma rn53_pos_cases x :
  0 <= x ->
  let s := Z.log2 x + 1 - 53 in
  (s <= 0 /\ rn53_pos x = x) \/
  (0 < s /\ exists q r, x = q * 2 ^ s + r /\ 0 <= r < 2 ^ s /\ 0 <= q /\
            (rn53_pos x = q * 2 ^ s \/ (0 < r /\ rn53_pos x = (q + 1) * 2 ^ s))).
Proof.
  intros Hx s. unfold rn53_pos. fold s.
  destruct (Z.leb_spec s 0) as [Hs|Hs]; [left; split; [exact Hs|reflexivity]|].
  right. split; [exact Hs|].
  assert (Hp : 0 < 2 ^ s) by (apply pow2_pos; lia).
  assert (Hh : 0 < 2 ^ (s - 1)) by (apply pow2_pos; lia).
  exists (x / 2 ^ s), (x mod 2 ^ s).
  pose proof (Z.div_mod x (2 ^ s) ltac:(lia)) as Hdm.
  pose proof (Z.mod_pos_bound x (2 ^ s) Hp) as Hm.
  assert (0 <= x / 2 ^ s) by (apply Z.div_pos; lia).
  repeat split; try lia.
  destruct (Z.ltb_spec (x mod 2 ^ s) (2 ^ (s - 1))); [left; reflexivity|].
  destruct (Z.ltb_spec (2 ^ (s - 1)) (x mod 2 ^ s)); [right; split; [lia|reflexivity]|].
  destruct (Z.even (x / 2 ^ s)); [left; reflexivity|right; split; [lia|reflexivity]].
Qed.

Lemma rn53_pos_nonneg x : 0 <= x -> 0 <= rn53_pos x.
Proof.
  intros Hx. pose proof (Z.pow_nonneg 2 (Z.log2 x + 1 - 53) ltac:(lia)) as Hp.
  destruct (rn53_pos_cases x Hx) as [[_ ->]|[Hs (q & r & _ & _ & Hq & [->| [_ ->]])]]; try lia; nia.
Qed.

(** a value with at most 53 + t significant bits is rounded to a multiple of a power of two that divides 2^t,
    so multiples of 2^t on either side of it stay on their side *)
Lemma rn53_pos_between x t c :
  0 <= x < 2 ^ (53 + t) -> 0 <= t ->
  (c * 2 ^ t <= x -> c * 2 ^ t <= rn53_pos x) /\ (x <= c * 2 ^ t -> rn53_pos x <= c * 2 ^ t).
Proof.
  intros [Hx Hlt] Ht.
  destruct (rn53_pos_cases x Hx) as [[_ ->]|[Hs (q & r & Hxe & Hr & Hq & Hres)]]; [split; auto|].
  assert (Hx0 : 0 < x).
  { destruct (Z.eq_dec x 0) as [E|]; [|lia]. exfalso. rewrite E in Hs. cbn in Hs. lia. }
  set (s := Z.log2 x + 1 - 53) in *.
  assert (Hst : s <= t).
  { assert (Z.log2 x < 53 + t) by (apply Z.log2_lt_pow2; lia). lia. }
  assert (Hp : 0 < 2 ^ s) by (apply pow2_pos; lia).
  assert (E : 2 ^ t = 2 ^ (t - s) * 2 ^ s) by (rewrite <- Z.pow_add_r by lia; f_equal; lia).
  set (c' := c * 2 ^ (t - s)).
  assert (Ec : c * 2 ^ t = c' * 2 ^ s) by (subst c'; rewrite E; ring).
  rewrite Ec. clear E Ec. generalize dependent c'. intros c'.
  split; intros H.
  - assert (c' <= q) by nia. destruct Hres as [->|[_ ->]]; nia.
  - destruct Hres as [->|[Hr0 ->]]; [nia|]. assert (q < c') by nia. nia.
Qed.

Lemma rn53_nonneg_eq x : 0 <= x -> rn53 x = rn53_pos x.
Proof. intros. unfold rn53. destruct (Z.ltb_spec x 0); [lia|reflexivity]. Qed.
Lemma rn53_neg_eq x : x < 0 -> rn53 x = - rn53_pos (- x).
Proof. intros. unfold rn53. destruct (Z.ltb_spec x 0); [reflexivity|lia]. Qed.

Lemma rn53_small x : - 2 ^ 53 < x < 2 ^ 53 -> rn53 x = x.
Proof.
  intros H. destruct (Z_lt_le_dec x 0).
  - rewrite rn53_neg_eq, rn53_pos_small by lia. lia.
  - rewrite rn53_nonneg_eq, rn53_pos_small by lia. reflexivity.
Qed.

(** the same for either sign *)
Lemma rn53_between x t c :
  - 2 ^ (53 + t) < x < 2 ^ (53 + t) -> 0 <= t ->
  (c * 2 ^ t <= x -> c * 2 ^ t <= rn53 x) /\ (x <= c * 2 ^ t -> rn53 x <= c * 2 ^ t).
Proof.
  intros Hx Ht. destruct (Z_lt_le_dec x 0) as [Hn|Hn].
  - rewrite rn53_neg_eq by exact Hn.
    destruct (rn53_pos_between (- x) t (- c) ltac:(lia) Ht) as [A B].
    split; intros H.
    + assert (rn53_pos (- x) <= - c * 2 ^ t) by (apply B; lia). lia.
    + assert (- c * 2 ^ t <= rn53_pos (- x)) by (apply A; lia). lia.
  - rewrite rn53_nonneg_eq by exact Hn. apply rn53_pos_between; [lia|exact Ht].
Qed.

(** a 53-bit integer times a power of two is a float64: multiplying by 2^k never rounds *)
Lemma rn53_shift_exact x k : 0 <= x < 2 ^ 53 -> 0 <= k -> rn53 (x * 2 ^ k) = x * 2 ^ k.
Proof.
  intros [Hx Hlt] Hk.
  assert (Hpk : 0 < 2 ^ k) by (apply pow2_pos; lia).
  rewrite rn53_nonneg_eq by nia.
  destruct (Z.eq_dec x 0) as [->|Hn]; [reflexivity|].
  assert (Hl : Z.log2 (x * 2 ^ k) = k + Z.log2 x) by (apply Z.log2_mul_pow2; lia).
  assert (Hl53 : Z.log2 x < 53) by (apply Z.log2_lt_pow2; lia).
  destruct (rn53_pos_cases (x * 2 ^ k) ltac:(nia)) as [[_ E]|[Hs (q & r & Hxe & Hr & Hq & Hres)]]; [exact E|].
  set (s := Z.log2 (x * 2 ^ k) + 1 - 53) in *.
  assert (Hsk : s <= k) by lia.
  assert (Hp : 0 < 2 ^ s) by (apply pow2_pos; lia).
  assert (E : 2 ^ k = 2 ^ (k - s) * 2 ^ s) by (rewrite <- Z.pow_add_r by lia; f_equal; lia).
  assert (Hr0 : r = 0).
  { assert (Em : (x * 2 ^ k) mod 2 ^ s = 0) by (rewrite E, Z.mul_assoc; apply Z.mod_mul; lia).
    assert (Em2 : (q * 2 ^ s + r) mod 2 ^ s = r).
    { rewrite Z.add_comm, Z.mod_add by lia. apply Z.mod_small. lia. }
    rewrite <- Hxe in Em2. lia. }
  subst r. destruct Hres as [->|[Hc _]]; lia.
Qed.

(** ---- the capped exponential is exact ---- *)
Lemma bo_base_exact c k : cfg_ok c -> bo_base_f c k = bo_base c k.
Proof.
  intros [[Hi0 Hi1] [Hm0 Hm1]]. unfold bo_base_f, bo_base.
  assert (2 ^ 52 < 2 ^ 53) by (apply Z.pow_lt_mono_r; lia).
  rewrite (rn53_small (bo_init c)), (rn53_small (bo_max c)) by lia.
  rewrite rn53_shift_exact by lia.
  destruct (Z.ltb_spec (bo_max c) (bo_init c * 2 ^ Z.of_N k)); lia.
Qed.

Lemma bo_base_range c k : cfg_ok c -> 0 < bo_base c k < 2 ^ 52.
Proof.
  intros [[Hi0 Hi1] [Hm0 Hm1]]. unfold bo_base.
  assert (0 < 2 ^ Z.of_N k) by (apply pow2_pos; lia).
  assert (0 < bo_init c * 2 ^ Z.of_N k) by nia. lia.
Qed.

Lemma bo_base_le_max c k : bo_base c k <= bo_max c.
Proof. unfold bo_base. lia. Qed.

(** below the cap the delay doubles with every attempt; at the cap it stays *)
Lemma bo_base_mono c k : 0 < bo_init c -> bo_base c k <= bo_base c (k + 1).
Proof.
  intros Hi. unfold bo_base.
  assert (0 < 2 ^ Z.of_N k) by (apply pow2_pos; lia).
  replace (Z.of_N (k + 1)) with (Z.of_N k + 1) by lia.
  rewrite Z.pow_add_r by lia. change (2 ^ 1) with 2. nia.
Qed.

(** ---- the jitter interval ---- *)
Local Ltac norm_pows :=
  change (2 ^ 52) with 4503599627370496 in *;
  change (2 ^ 63) with 9223372036854775808 in *;
  change (2 ^ 65) with 36893488147419103232 in *;
  change (2 ^ (53 + 63)) with 83076749736557242056487941267521536 in *;
  change (2 ^ (53 + 65)) with 332306998946228968225951765070086144 in *.

Lemma bo_jit_bounds d r :
  0 < d < 2 ^ 52 -> draw_ok r ->
  (3 * d) / 4 <= bo_jit d r <= - ((- (5 * d)) / 4).
Proof.
  intros [Hd0 Hd1] [Hr0 Hr1]. unfold bo_jit, two63, two65 in *.
  (* u = float64(r) *)
  set (u := rn53 r).
  assert (Hu : 0 <= u <= 2 ^ 63).
  { subst u. pose proof (rn53_between r 63 0) as A. pose proof (rn53_between r 63 1) as B. norm_pows. lia. }
  (* t = u*2 - 1 *)
  set (t := rn53 (2 * u - 2 ^ 63)).
  assert (Ht : - 2 ^ 63 <= t <= 2 ^ 63).
  { subst t. pose proof (rn53_between (2 * u - 2 ^ 63) 63 (-1)) as A. pose proof (rn53_between (2 * u - 2 ^ 63) 63 1) as B.
    norm_pows. lia. }
  (* j = t * (d/4) *)
  set (j := rn53 (t * d)).
  assert (Hj : - (d * 2 ^ 63) <= j <= d * 2 ^ 63).
  { subst j. pose proof (rn53_between (t * d) 63 (- d)) as A. pose proof (rn53_between (t * d) 63 d) as B.
    norm_pows. assert (- (d * 9223372036854775808) <= t * d <= d * 9223372036854775808) by nia. lia. }
  (* s = d + j *)
  set (s := rn53 (d * 2 ^ 65 + j)).
  set (lo := (3 * d) / 4). set (hi := - ((- (5 * d)) / 4)).
  assert (Hlo : 0 <= lo /\ lo * 4 <= 3 * d).
  { subst lo. pose proof (Z.mul_div_le (3 * d) 4 ltac:(lia)). split; [apply Z.div_pos; lia|lia]. }
  assert (Hhi : 5 * d <= hi * 4 /\ hi <= 2 * d).
  { subst hi. pose proof (Z.div_mod (- (5 * d)) 4 ltac:(lia)). pose proof (Z.mod_pos_bound (- (5 * d)) 4 ltac:(lia)). lia. }
  assert (Hs : lo * 2 ^ 65 <= s <= hi * 2 ^ 65).
  { subst s. pose proof (rn53_between (d * 2 ^ 65 + j) 65 lo) as A. pose proof (rn53_between (d * 2 ^ 65 + j) 65 hi) as B.
    norm_pows. lia. }
  norm_pows.
  destruct (Z.ltb_spec s 0); [lia|].
  split; [apply Z.div_le_lower_bound; lia|apply Z.div_le_upper_bound; lia].
Qed.

Lemma bo_next_bounds c k r :
  cfg_ok c -> draw_ok r -> bo_lo c k <= bo_next c k r <= bo_hi c k.
Proof.
  intros Hc Hr. unfold bo_next, bo_lo, bo_hi. rewrite (bo_base_exact c k Hc).
  destruct (bo_jitter c); [|lia]. apply bo_jit_bounds; [apply bo_base_range; exact Hc|exact Hr].
Qed.

Lemma bo_next_no_jitter c k r : cfg_ok c -> bo_jitter c = false -> bo_next c k r = bo_base c k.
Proof. intros Hc Hj. unfold bo_next. rewrite Hj. apply bo_base_exact, Hc. Qed.

Lemma bo_lo_pos c k : cfg_ok c -> 0 <= bo_lo c k.
Proof.
  intros Hc. pose proof (bo_base_range c k Hc). unfold bo_lo. destruct (bo_jitter c); [apply Z.div_pos; lia|lia].
Qed.

(** 125 % of the cap, rounded up *)
Definition bo_hi_cap (c : bo_cfg) : Z := - ((- (5 * bo_max c)) / 4).

Lemma bo_hi_le_cap c k : cfg_ok c -> bo_hi c k <= bo_hi_cap c.
Proof.
  intros Hc. pose proof (bo_base_range c k Hc). pose proof (bo_base_le_max c k). unfold bo_hi, bo_hi_cap.
  assert (- (5 * bo_max c) / 4 <= - (5 * bo_base c k) / 4) by (apply Z.div_le_mono; lia).
  destruct (bo_jitter c); [lia|].
  pose proof (Z.div_mod (- (5 * bo_max c)) 4 ltac:(lia)). pose proof (Z.mod_pos_bound (- (5 * bo_max c)) 4 ltac:(lia)). lia.
Qed.

(** ---- the object ---- *)
Lemma bo_run_app c att a b :
  bo_run c att (a ++ b) =
  let (a1, ra) := bo_run c att a in let (a2, rb) := bo_run c a1 b in (a2, ra ++ rb).
Proof.
  revert att. induction a as [|op a IH]; intros att; cbn [app bo_run].
  - destruct (bo_run c att b); reflexivity.
  - destruct (bo_step c att op) as [a1 r]. rewrite IH.
    destruct (bo_run c a1 a) as [a2 ra]. destruct (bo_run c a2 b) as [a3 rb]. reflexivity.
Qed.

(** what the object does after a Reset does not depend on anything that happened before it *)
Lemma bo_run_reset_forgets c att att' h h' ops :
  snd (bo_run c (fst (bo_run c att (h ++ [BReset]))) ops) = snd (bo_run c (fst (bo_run c att' (h' ++ [BReset]))) ops).
Proof.
  assert (F : forall a l, fst (bo_run c a (l ++ [BReset])) = 0%N).
  { intros a l. rewrite bo_run_app. destruct (bo_run c a l) as [a1 ra]. reflexivity. }
  rewrite !F. reflexivity.
Qed.

(** the counter counts the Next() calls since the last Reset *)
Fixpoint nexts_since_reset (ops : list bo_op) (acc : N) : N :=
  match ops with
  | [] => acc
  | BNext _ :: r => nexts_since_reset r (acc + 1)%N
  | BReset :: r => nexts_since_reset r 0%N
  | BGet :: r => nexts_since_reset r acc
  end.
Lemma bo_run_attempt c att ops : fst (bo_run c att ops) = nexts_since_reset ops att.
Proof.
  revert att. induction ops as [|op ops IH]; intros att; [reflexivity|].
  cbn [bo_run]. destruct op; cbn [bo_step nexts_since_reset];
    match goal with |- context [bo_run c ?a ops] => specialize (IH a); destruct (bo_run c a ops) end; exact IH.
Qed.

(** ---- Try ---- *)
Fixpoint nseq (from : N) (n : nat) : list N :=
  match n with O => [] | S n' => from :: nseq (from + 1)%N n' end.

Lemma nseq_length from n : length (nseq from n) = n.
Proof. revert from. induction n; intros; cbn; auto. Qed.

(** the deferred Reset: whenever and however Try returns, the counter is 0 *)
Lemma bo_try_after c limit : forall outs att,
  tr_returned (bo_try c limit outs att) = true -> tr_after (bo_try c limit outs att) = 0%N.
Proof.
  induction outs as [|o outs IH]; intros att H; cbn [bo_try] in *.
  - discriminate.
  - destruct (fo_abort o || negb (fo_err o)); [reflexivity|].
    destruct ((0 <=? limit) && (limit <=? Z.of_N att)); [reflexivity|]. cbn [tr_after tr_returned] in *. auto.
Qed.

(** shape: fn sees consecutive attempt numbers; between two calls of fn exactly one Sleep *)
Lemma bo_try_shape c limit : forall outs att,
  let t := bo_try c limit outs att in
  tr_seen t = nseq att (length (tr_seen t)) /\
  (tr_returned t = true -> length (tr_seen t) = S (length (tr_sleeps t))) /\
  (tr_returned t = false -> length (tr_seen t) = length (tr_sleeps t) /\ length (tr_seen t) = length outs) /\
  (0 <= limit -> Z.of_N att <= limit -> Z.of_nat (length (tr_sleeps t)) <= limit - Z.of_N att) /\
  outs = firstn (length (tr_seen t)) outs ++ tr_rest t.
Proof.
  induction outs as [|o outs IH]; intros att; cbn [bo_try].
  - cbn. split; [reflexivity|]. split; [discriminate|]. split; [auto|]. split; [lia|reflexivity].
  - destruct (fo_abort o || negb (fo_err o)).
    { cbn. split; [reflexivity|]. split; [reflexivity|]. split; [discriminate|]. split; [lia|reflexivity]. }
    destruct ((0 <=? limit) && (limit <=? Z.of_N att)) eqn:Eb.
    { cbn. split; [reflexivity|]. split; [reflexivity|]. split; [discriminate|]. split; [lia|reflexivity]. }
    specialize (IH (att + 1)%N). cbn zeta in IH. destruct IH as (A & B & C & D & E).
    cbn [tr_seen tr_sleeps tr_returned tr_rest length nseq firstn app].
    split; [f_equal; exact A|]. split; [intros H; rewrite (B H); reflexivity|].
    split; [intros H; destruct (C H); split; lia|]. split; [|f_equal; exact E].
    intros Hl Ha. apply andb_false_iff in Eb.
    assert (Z.of_N att < limit) by (destruct Eb as [Eb|Eb]; [apply Z.leb_gt in Eb|apply Z.leb_gt in Eb]; lia).
    specialize (D Hl ltac:(lia)). lia.
Qed.

(** fn fails every time: exactly limit+1 calls (from a fresh counter), exactly limit sleeps, an error, no abort *)
Lemma bo_try_all_fail c limit : forall (n : nat) outs att,
  0 <= limit -> Z.of_N att + Z.of_nat n = limit ->
  (n < length outs)%nat -> Forall fails (firstn (S n) outs) ->
  let t := bo_try c limit outs att in
  tr_returned t = true /\ tr_abort t = false /\ tr_err t = true /\
  tr_seen t = nseq att (S n) /\ length (tr_sleeps t) = n /\ tr_rest t = skipn (S n) outs /\ tr_after t = 0%N.
Proof.
  induction n as [|n IH]; intros outs att Hl Hat Hlen Hf; (destruct outs as [|o outs]; [cbn in Hlen; lia|]).
  - cbn [firstn] in Hf. destruct (Forall_inv Hf) as [Ha He]. cbn [bo_try]. rewrite Ha, He. cbn [orb negb].
    destruct (Z.leb_spec 0 limit); [|lia]. destruct (Z.leb_spec limit (Z.of_N att)); [|lia]. cbn. repeat split; auto.
  - cbn [firstn] in Hf. destruct (Forall_inv Hf) as [Ha He]. pose proof (Forall_inv_tail Hf) as Hf'.
    cbn [bo_try]. rewrite Ha, He. cbn [orb negb].
    destruct (Z.leb_spec 0 limit); [|lia]. destruct (Z.leb_spec limit (Z.of_N att)); [lia|]. cbn [andb].
    destruct (IH outs (att + 1)%N Hl ltac:(lia) ltac:(cbn in Hlen; lia) Hf') as (A & B & C & D & E & F & G).
    cbn [tr_returned tr_abort tr_err tr_seen tr_sleeps tr_rest tr_after nseq length skipn].
    repeat split; auto. f_equal. exact D.
Qed.

(** fn succeeds or aborts at its (n+1)-th call after n failures: n sleeps, the result is fn's *)
Lemma bo_try_stops c limit : forall (n : nat) outs att o,
  (limit < 0 \/ Z.of_N att + Z.of_nat n <= limit) ->
  Forall fails (firstn n outs) -> nth_error outs n = Some o -> fo_abort o || negb (fo_err o) = true ->
  let t := bo_try c limit outs att in
  tr_returned t = true /\ tr_abort t = fo_abort o /\ tr_err t = fo_err o /\
  tr_seen t = nseq att (S n) /\ length (tr_sleeps t) = n /\ tr_rest t = skipn (S n) outs /\ tr_after t = 0%N.
Proof.
  induction n as [|n IH]; intros outs att o Hl Hf Hn Ho; (destruct outs as [|o1 outs]; [discriminate|]).
  - cbn in Hn. injection Hn as ->. cbn [bo_try]. rewrite Ho. cbn. repeat split; auto.
  - cbn [firstn] in Hf. destruct (Forall_inv Hf) as [Ha He]. pose proof (Forall_inv_tail Hf) as Hf'. cbn in Hn.
    cbn [bo_try]. rewrite Ha, He. cbn [orb negb].
    assert (Hb : (0 <=? limit) && (limit <=? Z.of_N att) = false).
    { destruct (Z.leb_spec 0 limit); [|reflexivity]. destruct (Z.leb_spec limit (Z.of_N att)); [lia|reflexivity]. }
    rewrite Hb.
    destruct (IH outs (att + 1)%N o ltac:(lia) Hf' Hn Ho) as (A & B & C & D & E & F & G).
    cbn [tr_returned tr_abort tr_err tr_seen tr_sleeps tr_rest tr_after nseq length skipn].
    repeat split; auto. f_equal. exact D.
Qed.

(** every sleep lies in the interval of its attempt number, hence the sum in the sum of the intervals *)
Lemma bo_try_sleeps_bounds c limit : forall outs att,
  cfg_ok c -> Forall (fun o => draw_ok (fo_draw o)) outs ->
  let t := bo_try c limit outs att in
  Forall2 (fun k d => bo_lo c k <= d <= bo_hi c k) (nseq att (length (tr_sleeps t))) (tr_sleeps t) /\
  sum_lo c att (length (tr_sleeps t)) <= sum_z (tr_sleeps t) <= sum_hi c att (length (tr_sleeps t)).
Proof.
  intros outs att Hc. revert att. induction outs as [|o outs IH]; intros att Hd; cbn [bo_try].
  - cbn. split; [constructor|lia].
  - destruct (fo_abort o || negb (fo_err o)); [cbn; split; [constructor|lia]|].
    destruct ((0 <=? limit) && (limit <=? Z.of_N att)); [cbn; split; [constructor|lia]|].
    cbn [tr_sleeps length nseq sum_z sum_lo sum_hi].
    destruct (IH (att + 1)%N (Forall_inv_tail Hd)) as [A B].
    pose proof (bo_next_bounds c att (fo_draw o) Hc (Forall_inv Hd)).
    split; [constructor; assumption|lia].
Qed.

Lemma sum_hi_le_cap c : cfg_ok c -> forall n from, sum_hi c from n <= Z.of_nat n * bo_hi_cap c.
Proof.
  intros Hc. induction n as [|n IH]; intros from; [cbn; lia|].
  cbn [sum_hi]. pose proof (bo_hi_le_cap c from Hc). specialize (IH (from + 1)%N). lia.
Qed.

Lemma sum_lo_nonneg c : cfg_ok c -> forall n from, 0 <= sum_lo c from n.
Proof.
  intros Hc. induction n as [|n IH]; intros from; [cbn; lia|].
  cbn [sum_lo]. pose proof (bo_lo_pos c from Hc). specialize (IH (from + 1)%N). lia.
Qed.

(** history independence: a Try on an object on which any Try has returned before behaves like a Try on a new one *)
Lemma bo_try_history_independent c l1 o1 att l2 o2 :
  tr_returned (bo_try c l1 o1 att) = true ->
  bo_try c l2 o2 (tr_after (bo_try c l1 o1 att)) = bo_try c l2 o2 0%N.
Proof. intros H. rewrite (bo_try_after c l1 o1 att H). reflexivity. Qed.

(** ... whereas a counter left behind shortens the next Try: with k attempts already counted and limit <= k, the
    first failure is final (this is what the deferred Reset prevents) *)
Lemma bo_try_stale_counter c limit o outs att :
  0 <= limit -> limit <= Z.of_N att -> fails o ->
  tr_seen (bo_try c limit (o :: outs) att) = [att] /\ tr_err (bo_try c limit (o :: outs) att) = true.
Proof.
  intros Hl Ha [A E]. cbn [bo_try]. rewrite A, E. cbn [orb negb].
  destruct (Z.leb_spec 0 limit); [|lia]. destruct (Z.leb_spec limit (Z.of_N att)); [|lia]. cbn. auto.
Qed.

(** ---- the statements of Properties/C14_backoff.v ---- *)
Lemma bo_next_interval c k r :
  cfg_ok c -> 0 <= r < 2 ^ 63 ->
  let d := Z.min (bo_init c * 2 ^ Z.of_N k) (bo_max c) in
  (bo_jitter c = true -> (3 * d) / 4 <= bo_next c k r <= - ((- (5 * d)) / 4)) /\
  (bo_jitter c = false -> bo_next c k r = d).
Proof.
  intros Hc Hr d. split; intros Hj.
  - pose proof (bo_next_bounds c k r Hc Hr) as H. unfold bo_lo, bo_hi in H. rewrite Hj in H. exact H.
  - apply bo_next_no_jitter; assumption.
Qed.

Lemma bo_try_all_fail_fresh c limit outs :
  0 <= limit -> (Z.to_nat limit < length outs)%nat -> Forall fails (firstn (S (Z.to_nat limit)) outs) ->
  let t := bo_try c limit outs 0 in
  tr_returned t = true /\ tr_abort t = false /\ tr_err t = true /\
  tr_seen t = nseq 0 (S (Z.to_nat limit)) /\ length (tr_sleeps t) = Z.to_nat limit /\
  tr_rest t = skipn (S (Z.to_nat limit)) outs /\ tr_after t = 0%N.
Proof. intros Hl Hlen Hf. apply bo_try_all_fail; auto. lia. Qed.

Lemma bo_try_stops_fresh c limit n outs o :
  (limit < 0 \/ Z.of_nat n <= limit) ->
  Forall fails (firstn n outs) -> nth_error outs n = Some o -> fo_abort o || negb (fo_err o) = true ->
  let t := bo_try c limit outs 0 in
  tr_returned t = true /\ tr_abort t = fo_abort o /\ tr_err t = fo_err o /\
  tr_seen t = nseq 0 (S n) /\ length (tr_sleeps t) = n /\ tr_rest t = skipn (S n) outs /\ tr_after t = 0%N.
Proof. intros Hl. apply bo_try_stops. lia. Qed.

Lemma bo_try_total_sleep c limit outs att :
  cfg_ok c -> Forall (fun o => 0 <= fo_draw o < 2 ^ 63) outs ->
  let t := bo_try c limit outs att in
  let n := length (tr_sleeps t) in
  Forall2 (fun k d => bo_lo c k <= d <= bo_hi c k) (nseq att n) (tr_sleeps t) /\
  sum_lo c att n <= sum_z (tr_sleeps t) <= sum_hi c att n /\
  0 <= sum_lo c att n /\ sum_hi c att n <= Z.of_nat n * (- ((- (5 * bo_max c)) / 4)).
Proof.
  intros Hc Hd. destruct (bo_try_sleeps_bounds c limit outs att Hc Hd) as [A B].
  split; [exact A|]. split; [exact B|]. split; [apply sum_lo_nonneg, Hc|apply (sum_hi_le_cap c Hc)].
Qed.
