(** Central.v composed with the framing theorem of C11: cold start, any number of concurrent first senders, any
    schedule, any chunking of the one connection's byte stream - the remote system delivers every sender's messages
    exactly once and in the order sent.  And the variant with a non-atomic table (not the code): refuted. *)
From Coq Require Import List NArith Bool Lia PeanoNat.
From Vivid Require Import Codec.Prim Remoting.Frame Remoting.FrameProofs Remoting.Link Remoting.Central Remoting.CentralProofs.
Import ListNotations.

Section CF.
  Context {A M : Type}.
  Variable eqb : A -> A -> bool.
  Hypothesis eqb_spec : forall a b, eqb a b = true <-> a = b.
  Variable enc : entry A M -> bytes.                 (* the envelope of one Enqueue (sender ref, receiver ref, message) *)
  Variable dec : bytes -> option (entry A M).
  Hypothesis codec_roundtrip : forall e, dec (enc e) = Some e.

  Theorem cold_start_delivery progs sched a i p chunks :
    let s := run eqb sched (init progs) in
    nth_error progs i = Some p -> finished s ->
    Forall (fun e => (1 <= N.of_nat (length (enc e)) <= max_frame)%N) (log_of eqb a s) ->
    concat chunks = concat (map (fun e => frame (enc e)) (log_of eqb a s)) ->
    delivered (receive dec chunks) = log_of eqb a s /\
    sent_by i (delivered (receive dec chunks)) = to_addr eqb a p.
  Proof.
    intros s Hp Hf Hsz Hc.
    destruct (exactly_once_in_order enc dec codec_roundtrip (log_of eqb a s) chunks Hsz Hc) as [_ Hd].
    split; [exact Hd|]. rewrite Hd. apply (per_sender_fifo eqb eqb_spec); assumption.
  Qed.
End CF.

(** the excluded variant: the two connections that serve the ONE address 7 are read by two independent reader
    actors; if the table's connection is read first the receiver sees sender 1's second message before its first *)
Lemma orphan_reorders :
  exists (progs : list (list (nat * nat))) (sched : list nat) (r : list (entry nat nat)),
    let s := orun Nat.eqb sched (oinit progs) in
    merges [box_log 0 (os_log s); box_log 1 (os_log s)] r /\
    nth_error progs 1 = Some [(7, 20); (7, 21)] /\ sent_by 1 r = [21; 20].
Proof.
  exists ow_progs, ow_sched.
  set (e10 := {| e_box := 0; e_from := 0; e_addr := 7; e_msg := 10 |}).
  set (e11 := {| e_box := 0; e_from := 0; e_addr := 7; e_msg := 11 |}).
  set (e21 := {| e_box := 0; e_from := 1; e_addr := 7; e_msg := 21 |}).
  set (e20 := {| e_box := 1; e_from := 1; e_addr := 7; e_msg := 20 |}).
  exists [e10; e11; e21; e20]. cbn zeta.
  replace (box_log 0 (os_log (orun Nat.eqb ow_sched (oinit ow_progs)))) with [e10; e11; e21] by (vm_compute; reflexivity).
  replace (box_log 1 (os_log (orun Nat.eqb ow_sched (oinit ow_progs)))) with [e20] by (vm_compute; reflexivity).
  split; [|split; reflexivity].
  apply (merges_cons [] e10 [e11; e21] [[e20]]). cbn.
  apply (merges_cons [] e11 [e21] [[e20]]). cbn.
  apply (merges_cons [] e21 [] [[e20]]). cbn.
  apply (merges_cons [[]] e20 [] []). cbn.
  apply merges_nil. repeat constructor.
Qed.
