(** C15 — location transparency: proofs.  The wire part COMPOSES the existing theorems:
      EnvelopeProofs.envelope_rt (= C12_envelope; through MsgsProofs.rt_Q it contains the round trip of every
      registered message kind: OnKill, OnKilled, WatchMessage, UnwatchMessage, PingMessage, PongMessage, PipeResult with
      and without Message, SchedulerMessage, and of a user payload through the Codec, M9),
      FrameProofs.receive_delivers / receive_chunking_independent (= C11: exactly once, in order, any chunking).
    No codec is re-proved here.  The second half links to the local semantics (Actor/Core.v). *)
From Coq Require Import List NArith ZArith Lia Bool.
From Coq Require Import ZifyN ZifyNat ZifyBool.
From stdpp Require Import gmap.
From Vivid Require Import Codec.Prim Codec.PrimProofs Codec.MsgPrim Codec.MsgPrimProofs Cluster.VV Codec.ClusterMsgs
  Codec.Msgs Codec.MsgsProofs Remoting.Frame Remoting.FrameProofs Codec.Envelope Codec.EnvelopeProofs
  Remoting.Transparency.
From Vivid Require Actor.Core.
Local Open Scope N_scope.

Lemma bytes_eqb_refl a : bytes_eqb a a = true.
Proof. induction a as [|x a IH]; cbn; [reflexivity|]. rewrite N.eqb_refl, IH. reflexivity. Qed.
Lemma bytes_eqb_true a b : bytes_eqb a b = true -> a = b.
Proof.
  revert b. induction a as [|x a IH]; intros [|y b] E; cbn in E; try discriminate; [reflexivity|].
  apply andb_true_iff in E as [E1 E2]. apply N.eqb_eq in E1. subst. f_equal. apply IH. exact E2.
Qed.
Lemma bytes_eqb_neq a b : a <> b -> bytes_eqb a b = false.
Proof. intros H. destruct (bytes_eqb a b) eqn:E; [|reflexivity]. apply bytes_eqb_true in E. contradiction. Qed.

(** * arithmetic helpers *)
Lemma send_frame_of_legal w : legal w -> send_frame w = Some (frame w).
Proof.
  unfold legal, send_frame. intros [H1 H2].
  replace (N.of_nat (length w) =? 0) with false by lia.
  replace (max_frame <? N.of_nat (length w)) with false by lia. reflexivity.
Qed.

Lemma small_len32 b : small b -> len32 b.
Proof. unfold small, len32. lia. Qed.


Lemma put_bool_length b : length (put_bool b) = 1%nat.
Proof. reflexivity. Qed.
Lemma put_i64_length z : length (put_i64 z) = 8%nat.
Proof. unfold put_i64, put_u64. apply be_length. Qed.
Lemma put_i32_length z : length (put_i32 z) = 4%nat.
Proof. unfold put_i32, put_u32. apply be_length. Qed.
Lemma txt_exception_length : length txt_exception = 11%nat.
Proof. reflexivity. Qed.
Lemma nil_length : length (@nil N) = 0%nat.
Proof. reflexivity. Qed.
Lemma name_of_short k : (length (name_of k) <= 32)%nat.
Proof. destruct k; cbn; lia. Qed.


(** * sizes and the sender's refusals (only the encoder side is involved) *)
Section Sizes.
  Variable U : Type.
  Variable has_codec : bool.
  Variable cenc : U -> mres bytes.

  Notation msg := (msg U).
  Notation envelope := (envelope U).
  Notation op := (op U).
  Notation enc_envelope := (enc_envelope U has_codec cenc).
  Notation fits := (fits U has_codec cenc).
  Notation wire := (wire U has_codec cenc).
  Notation frame_ok := (frame_ok U has_codec cenc).
  Notation op_envelope := (op_envelope U).

  (** ** the size conditions of the flat built-in operations follow from bounds on their strings *)
  Ltac len_simpl :=
    rewrite ?app_length, ?FrameProofs.put_lp4_length, ?put_bool_length, ?put_i64_length, ?put_i32_length,
            ?txt_exception_length, ?nil_length.

  (** length of an encoded envelope that carries a registered message *)
  Lemma enc_envelope_length (e : envelope) k b w :
    kind_of U (e_msg U e) = Some k -> enc_body U has_codec cenc (e_msg U e) = MOk b -> enc_envelope e = MOk w ->
    length w = (25 + length b + length (name_of k)
                + length (fst (strs_of (e_sender U e))) + length (snd (strs_of (e_sender U e)))
                + length (fst (strs_of (e_receiver U e))) + length (snd (strs_of (e_receiver U e))))%nat.
  Proof.
    destruct e as [sys s r m]. cbn [e_system e_sender e_receiver e_msg]. intros Hk Hb.
    unfold Envelope.enc_envelope. cbn [e_system e_sender e_receiver e_msg].
    destruct m; cbn [kind_of] in Hk |- *; try discriminate; injection Hk as <-;
      unfold serialize_remoting; rewrite Hb; cbn [mbind fst snd]; intros Hw;
      match type of Hw with MOk ?x = MOk _ => assert (Hx : x = w) by congruence end; rewrite <- Hx; len_simpl; lia.
  Qed.

  Lemma sizes_from_body (e : envelope) k b :
    kind_of U (e_msg U e) = Some k -> enc_body U has_codec cenc (e_msg U e) = MOk b ->
    N.of_nat (length b) + N.of_nat (length (fst (strs_of (e_sender U e)))) + N.of_nat (length (snd (strs_of (e_sender U e))))
    + N.of_nat (length (fst (strs_of (e_receiver U e)))) + N.of_nat (length (snd (strs_of (e_receiver U e)))) <= 4194000 ->
    fits (e_msg U e) /\ frame_ok e.
  Proof.
    intros Hk Hb Hl. split.
    - intros b' Hb'. rewrite Hb in Hb'. injection Hb' as <-. unfold len32. lia.
    - intros w Hw. rewrite (enc_envelope_length e k b w Hk Hb Hw), max_frame_val. pose proof (name_of_short k). lia.
  Qed.

  Lemma builtin_sizes (o : op) :
    small_op U o -> fits (e_msg U (op_envelope o)) /\ frame_ok (op_envelope o).
  Proof.
    unfold Transparency.small_op, small_aref, small.
    destruct o as [s t m|s t m|s t m|[sa sp] [ta tp] reason poison|[sa sp] [ta tp]|[sa sp] [ta tp]|[sa sp] [ta tp] t0
                  |[sa sp] [ta tp] ping resp|[sa sp] [ta tp]|s t id m e|[sa sp] [ta tp] id e|s t r m];
      cbn [Transparency.op_sender Transparency.op_receiver fst snd]; intros (Hs & Hr & Hx); try contradiction;
      destruct Hs as [Hs1 Hs2]; destruct Hr as [Hr1 Hr2];
      try match goal with e0 : perr |- _ =>
            destruct Hx as [Hid He]; destruct e0 as [|c t0|t0|];
            [| | |split; [intros b Hb|intros w Hw; unfold Envelope.enc_envelope, serialize_remoting in Hw]; discriminate]
          end;
      (eapply sizes_from_body; [reflexivity|reflexivity|]);
      cbn [Transparency.op_envelope Transparency.mk_env e_sender e_receiver strs_of to_eref fst snd];
      unfold enc_OnKill, enc_OnKilled, enc_Ping, w_ref, to_eref; cbn [fst snd]; repeat (progress len_simpl); lia.
  Qed.

  (** a user payload that is not a registered message needs a Codec: without one the remote Tell is an encode
      failure (dead letter on the sender's side) while the local Tell delivers *)
  Theorem tell_outside_needs_codec (sys : bool) (s t : aref) (u : U) :
    has_codec = false -> wire (mk_env U sys s t (M_Outside u)) = None.
  Proof. intros Hc. unfold Transparency.wire, Envelope.enc_envelope. cbn. rewrite Hc. reflexivity. Qed.

  (** an envelope whose encoding exceeds 4 MiB is refused by the sender *)
  Theorem oversize_not_sent (e : envelope) w :
    enc_envelope e = MOk w -> max_frame < N.of_nat (length w) -> wire e = None.
  Proof.
    intros Hw Hl. unfold Transparency.wire, send_frame. rewrite Hw.
    replace (max_frame <? N.of_nat (length w)) with true by lia. rewrite orb_true_r. reflexivity.
  Qed.

End Sizes.

Section T.
  Variable U : Type.
  Variable has_codec : bool.
  Variable cenc : U -> mres bytes.
  Variable cdec : bytes -> mres U.
  Variable qerr : Z -> option bytes.
  Variable newref : bytes -> bytes -> mres (bytes * bytes).

  Notation msg := (msg U).
  Notation envelope := (envelope U).
  Notation op := (op U).
  Notation enc_envelope := (enc_envelope U has_codec cenc).
  Notation dec_envelope := (dec_envelope U has_codec cdec qerr newref).
  Notation valid_msg := (valid_msg U has_codec cenc cdec qerr newref).
  Notation fits := (fits U has_codec cenc).
  Notation wire := (wire U has_codec cenc).
  Notation wire_bytes := (wire_bytes U has_codec cenc).
  Notation wire_dec := (wire_dec U has_codec cdec qerr newref).
  Notation handle := (handle U newref).
  Notation remote_receive := (remote_receive U has_codec cdec qerr newref).
  Notation remote_transport := (remote_transport U has_codec cenc cdec qerr newref).
  Notation wire_valid := (wire_valid U has_codec cenc cdec qerr newref).
  Notation valid_op := (valid_op U has_codec cenc cdec qerr newref).
  Notation frame_ok := (frame_ok U has_codec cenc).
  Notation present_ref := (present_ref newref).
  Notation valid_aref := (valid_aref newref).
  Notation op_envelope := (op_envelope U).
  Notation env_equiv := (env_equiv U).

  (** ** one envelope: encode, frame, decode, rebuild *)
  Definition body_of (e : envelope) : bytes := match enc_envelope e with MOk w => w | MErr _ => [] end.

  Lemma present_valid_ref r : present_ref r -> valid_ref r.
  Proof. destruct r as [|a p|]; cbn; [tauto|intros (Ha & Hp & _); split; assumption|tauto]. Qed.

  (** what the receiving system [own] can deliver: a wire-valid envelope whose receiver path is a valid path under
      the system's own address (for a receiver ref that already carries [own] this adds nothing) *)
  Definition deliverable (own : bytes) (e : envelope) : Prop :=
    wire_valid e /\ present_ref (e_receiver U (localized U own e)).

  Lemma localized_canonical own (e : envelope) p : e_receiver U e = RRef own p -> localized U own e = e.
  Proof. destruct e as [sys s r m]. cbn [e_receiver]. intros ->. reflexivity. Qed.

  Lemma wire_valid_deliverable own (e : envelope) p : e_receiver U e = RRef own p -> wire_valid e -> deliverable own e.
  Proof. intros Hr HV. split; [exact HV|]. rewrite (localized_canonical own e p Hr). apply HV. Qed.

  (** HandleRemotingEnvelop gives back the envelope that was encoded, its receiver re-addressed to the system
      itself: NewRef accepts the written strings unchanged *)
  Lemma handle_expected own (e : envelope) :
    present_ref (e_sender U e) -> present_ref (e_receiver U e) -> present_ref (e_receiver U (localized U own e)) ->
    handle own (expected_out U e) = Some (localized U own e).
  Proof.
    destruct e as [sys s r m]. unfold localized. cbn [e_system e_sender e_receiver e_msg].
    destruct s as [|a p|]; cbn [Transparency.present_ref]; try tauto.
    destruct r as [|a' p'|]; cbn [Transparency.present_ref]; try tauto.
    intros (_ & _ & H1) (_ & _ & H2) (_ & _ & H3). unfold Transparency.handle, expected_out.
    cbn [o_saddr o_spath o_raddr o_rpath o_system o_msg e_system e_sender e_receiver e_msg strs_of fst snd].
    rewrite H1, H2. cbn [fst snd to_eref]. destruct (bytes_eqb a' own) eqn:E.
    - apply bytes_eqb_true in E. subst a'. reflexivity.
    - rewrite H3. reflexivity.
  Qed.
  Lemma handle_before_fix_expected (e : envelope) :
    present_ref (e_sender U e) -> present_ref (e_receiver U e) -> handle_before_fix U newref (expected_out U e) = Some e.
  Proof.
    destruct e as [sys s r m]. cbn [e_sender e_receiver].
    destruct s as [|a p|]; cbn [Transparency.present_ref]; try tauto.
    destruct r as [|a' p'|]; cbn [Transparency.present_ref]; try tauto.
    intros (_ & _ & H1) (_ & _ & H2). unfold Transparency.handle_before_fix, expected_out.
    cbn [o_saddr o_spath o_raddr o_rpath o_system o_msg e_system e_sender e_receiver e_msg strs_of fst snd].
    rewrite H1, H2. reflexivity.
  Qed.

  (** C12_envelope for a wire-valid envelope, in the shape the frame reader needs *)
  Lemma wire_valid_body (e : envelope) :
    wire_valid e ->
    enc_envelope e = MOk (body_of e) /\ legal (body_of e) /\ wire e = Some (frame (body_of e)) /\
    wire_dec (body_of e) = Some (expected_out U e).
  Proof.
    intros (Hs & Hr & Tm & Vm & Fm & Fo).
    destruct (envelope_rt U has_codec cenc cdec qerr newref e []) as (w & Hw & Hd).
    { repeat split; try assumption; apply present_valid_ref; assumption. }
    { exact Fm. }
    rewrite app_nil_r in Hd.
    assert (Hb : body_of e = w) by (unfold body_of; rewrite Hw; reflexivity).
    rewrite Hb.
    assert (Hl : legal w).
    { split; [|apply Fo; exact Hw]. destruct w as [|x w]; [|cbn [length]; lia].
      exfalso. revert Hd. unfold drun, Envelope.dec_envelope, dbind, d_str. cbn. discriminate. }
    split; [exact Hw|]. split; [exact Hl|]. split.
    - unfold Transparency.wire. rewrite Hw. apply send_frame_of_legal. exact Hl.
    - unfold Transparency.wire_dec; rewrite Hd; reflexivity.
  Qed.

  Lemma wire_bytes_valid e : wire_valid e -> wire_bytes e = frame (body_of e).
  Proof. intros H. unfold Transparency.wire_bytes. destruct (wire_valid_body e H) as (_ & _ & -> & _). reflexivity. Qed.

  (** ** C11: any chunking *)
  (** the result depends on the concatenation of the reads only (no validity needed) *)
  Theorem transport_chunking own (chunks1 chunks2 : list bytes) :
    concat chunks1 = concat chunks2 -> remote_receive own chunks1 = remote_receive own chunks2.
  Proof.
    intros E. unfold Transparency.remote_receive.
    rewrite !(receive_chunking_independent wire_dec), E. reflexivity.
  Qed.

  (** a whole connection, for any handler [h] that maps the decoded form of [e] to [f e] *)
  Lemma transport_stream_gen (h : envelope_out U -> option envelope) (f : envelope -> envelope)
        (es : list envelope) (chunks : list bytes) :
    Forall wire_valid es -> Forall (fun e => h (expected_out U e) = Some (f e)) es ->
    concat chunks = concat (map wire_bytes es) ->
    map h (delivered (receive wire_dec chunks)) = map (fun e => Some (f e)) es.
  Proof.
    intros HV HH E.
    assert (Hm : map wire_bytes es = map frame (map body_of es)).
    { rewrite map_map. apply map_ext_in. intros e He. apply wire_bytes_valid. exact (proj1 (List.Forall_forall _ _) HV e He). }
    rewrite Hm in E.
    assert (HF : Forall legal (map body_of es)).
    { apply List.Forall_map. eapply List.Forall_impl; [|exact HV]. intros e He. apply (wire_valid_body e He). }
    rewrite (receive_delivers wire_dec _ _ HF E).
    clear E Hm HF. induction HV as [|e es He _ IH]; [reflexivity|].
    inversion HH as [|? ? Hh HH']; subst.
    cbn [map decodable]. destruct (wire_valid_body e He) as (_ & _ & _ & ->).
    cbn [map]. rewrite Hh, (IH HH'). reflexivity.
  Qed.

  (** the envelopes of any list of deliverable envelopes reach HandleRemotingEnvelop and are enqueued exactly
      once, in order, each equal to the one that was sent (receiver re-addressed to the system itself), for
      every chunking *)
  Theorem transport_stream own (es : list envelope) (chunks : list bytes) :
    Forall (deliverable own) es ->
    concat chunks = concat (map wire_bytes es) ->
    remote_receive own chunks = map (fun e => Some (localized U own e)) es.
  Proof.
    intros HD E. unfold Transparency.remote_receive. apply transport_stream_gen.
    - eapply List.Forall_impl; [|exact HD]. intros e He. apply He.
    - eapply List.Forall_impl; [|exact HD]. intros e ((Hs & Hr & _) & Hl). apply handle_expected; assumption.
    - exact E.
  Qed.

  Theorem transport_one own (e : envelope) :
    deliverable own e ->
    remote_transport own e = Some (localized U own e) /\
    forall chunks, concat chunks = wire_bytes e -> remote_receive own chunks = [Some (localized U own e)].
  Proof.
    intros HD.
    assert (H1 : forall chunks, concat chunks = wire_bytes e -> remote_receive own chunks = [Some (localized U own e)]).
    { intros chunks E. apply (transport_stream own [e] chunks); [constructor; [exact HD|constructor]|].
      cbn [map concat]. rewrite app_nil_r. exact E. }
    split; [|exact H1].
    unfold Transparency.remote_transport. pose proof (wire_bytes_valid e (proj1 HD)) as Hb.
    destruct (wire_valid_body e (proj1 HD)) as (_ & _ & Hw & _). rewrite Hw.
    rewrite (H1 [frame (body_of e)]); [reflexivity|]. cbn [concat]. rewrite app_nil_r. symmetry. exact Hb.
  Qed.

  (** ** "the same envelope" *)
  Lemma env_equiv_refl e : env_equiv e e.
  Proof. repeat split. Qed.
  (** between envelopes whose refs are present, [env_equiv] is equality: the model has no ref identity *)
  Lemma env_equiv_eq (e1 e2 : envelope) :
    env_equiv e1 e2 ->
    (exists a p, e_sender U e1 = RRef a p) -> (exists a p, e_receiver U e1 = RRef a p) ->
    (exists a p, e_sender U e2 = RRef a p) -> (exists a p, e_receiver U e2 = RRef a p) -> e1 = e2.
  Proof.
    destruct e1 as [y1 s1 r1 m1], e2 as [y2 s2 r2 m2]. unfold Transparency.env_equiv. cbn [e_system e_sender e_receiver e_msg].
    intros (-> & -> & Hs & Hr) (a1 & p1 & ->) (a2 & p2 & ->) (a3 & p3 & ->) (a4 & p4 & ->).
    cbn in Hs, Hr. congruence.
  Qed.

  (** ** operations *)
  Lemma valid_aref_present r : valid_aref r -> present_ref (to_eref r).
  Proof. destruct r as [a p]. cbn. tauto. Qed.

  Lemma valid_op_wire_valid (o : op) : valid_op o -> wire_valid (op_envelope o).
  Proof.
    intros (Hs & Hr & Hm & Hf & Ho). unfold Transparency.wire_valid.
    assert (Ps := valid_aref_present _ Hs). assert (Pr := valid_aref_present _ Hr).
    unfold Transparency.valid_aref in *.
    destruct o; cbn [Transparency.op_envelope Transparency.mk_env e_sender e_receiver e_msg Transparency.op_sender Transparency.op_receiver] in *;
      (split; [exact Ps|]; split; [exact Pr|]);
      cbn [ty_msg Msgs.valid_msg Transparency.valid_fields] in *; intuition eauto.
  Qed.

  (** the envelope the target system itself builds for the operation: same system flag, sender and message, the
      receiver ref with the system's own address and the same path *)
  Lemma localized_op own (o : op) :
    localized U own (op_envelope o) =
    {| e_system := e_system U (op_envelope o); e_sender := to_eref (op_sender U o);
       e_receiver := RRef own (snd (op_receiver U o)); e_msg := e_msg U (op_envelope o) |}.
  Proof. destruct o; reflexivity. Qed.
  Lemma localized_op_canonical (o : op) : localized U (fst (op_receiver U o)) (op_envelope o) = op_envelope o.
  Proof. destruct o; reflexivity. Qed.

  Lemma valid_op_deliverable own (o : op) :
    valid_op o -> valid_aref (own, snd (op_receiver U o)) -> deliverable own (op_envelope o).
  Proof.
    intros HV Ho. split; [apply valid_op_wire_valid, HV|]. rewrite localized_op. cbn [e_receiver].
    apply (valid_aref_present _ Ho).
  Qed.

  (** the form all corollaries use *)
  Theorem transparent_exact own (o : op) :
    valid_op o -> valid_aref (own, snd (op_receiver U o)) ->
    remote_transport own (op_envelope o) = Some (localized U own (op_envelope o)) /\
    forall chunks, concat chunks = wire_bytes (op_envelope o) ->
                   remote_receive own chunks = [Some (localized U own (op_envelope o))].
  Proof. intros HV Ho. apply transport_one, valid_op_deliverable; assumption. Qed.

  Lemma local_route own p : find_mailbox own (RRef own p) = ToLocal p.
  Proof. unfold find_mailbox. rewrite bytes_eqb_refl. reflexivity. Qed.

  (** THE theorem: for every operation, every wire-valid instance, every chunking, and whatever address string of
      the target system the caller's ref carries: the target system enqueues, under the target's path, the envelope
      a call on that system itself enqueues *)
  Theorem transparent own (o : op) :
    valid_op o -> valid_aref (own, snd (op_receiver U o)) ->
    exists e', remote_transport own (op_envelope o) = Some e' /\ env_equiv e' (localized U own (op_envelope o)) /\
      (forall chunks, concat chunks = wire_bytes (op_envelope o) -> remote_receive own chunks = [Some e']) /\
      find_mailbox own (e_receiver U e') = ToLocal (snd (op_receiver U o)).
  Proof.
    intros HV Ho. destruct (transparent_exact own o HV Ho) as (H1 & H2).
    exists (localized U own (op_envelope o)). split; [exact H1|]. split; [apply env_equiv_refl|]. split; [exact H2|].
    rewrite localized_op. cbn [e_receiver]. apply local_route.
  Qed.

  (** several operations over one connection (M5: one FIFO byte stream): exactly once, in order *)
  Theorem transparent_stream own (os : list op) (chunks : list bytes) :
    Forall (fun o => valid_op o /\ valid_aref (own, snd (op_receiver U o))) os ->
    concat chunks = concat (map (fun o => wire_bytes (op_envelope o)) os) ->
    remote_receive own chunks = map (fun o => Some (localized U own (op_envelope o))) os.
  Proof.
    intros HV E. rewrite <- (map_map op_envelope wire_bytes) in E.
    rewrite (transport_stream own (map op_envelope os) chunks).
    - rewrite map_map. reflexivity.
    - apply List.Forall_map. eapply List.Forall_impl; [|exact HV]. intros o [H1 H2]. apply valid_op_deliverable; assumption.
    - exact E.
  Qed.

  (** routing on the calling system: findMailbox picks the remoting mailbox of the address in the ref *)
  Theorem routing (here : bytes) (o : op) :
    fst (op_receiver U o) <> here ->
    find_mailbox here (e_receiver U (op_envelope o)) = ToRemote (fst (op_receiver U o)).
  Proof.
    intros Hne.
    assert (Hr : e_receiver U (op_envelope o) = to_eref (op_receiver U o)) by (destruct o; reflexivity).
    rewrite Hr. unfold to_eref, find_mailbox. rewrite (bytes_eqb_neq _ _ Hne). reflexivity.
  Qed.

  (** ** per-operation corollaries.  [own] is the advertised address of the system that hosts the target; the ref the
      caller holds may carry that address or any other address string that reaches the system. *)
  (** a flat built-in operation is wire-valid as soon as its refs are NewRef-made, its fields are in range and
      its strings are small *)
  Lemma small_valid (o : op) :
    valid_aref (op_sender U o) -> valid_aref (op_receiver U o) -> Transparency.valid_fields U has_codec cenc cdec qerr newref o ->
    small_op U o -> valid_op o.
  Proof.
    intros Hs Hr Hf Hsm. destruct (builtin_sizes U has_codec cenc o Hsm) as [H1 H2].
    split; [exact Hs|split; [exact Hr|split; [exact Hf|split; [exact H1|exact H2]]]].
  Qed.

  Ltac flat_valid :=
    apply small_valid;
      [assumption|assumption|cbn; auto using small_len32
      |unfold Transparency.small_op; cbn [Transparency.op_sender Transparency.op_receiver]; tauto].

  Ltac finish H1 H2 :=
    eexists; split; [exact H1|]; split; [exact H2|]; rewrite localized_op; cbn; repeat split; apply local_route.

  (** Kill *)
  Theorem remote_kill own (killer target : aref) (reason : bytes) (poison : bool) :
    valid_aref killer -> valid_aref target -> valid_aref (own, snd target) ->
    small_aref killer -> small_aref target -> small reason ->
    exists e',
      remote_transport own (op_envelope (OpKill killer target reason poison)) = Some e' /\
      (forall chunks, concat chunks = wire_bytes (op_envelope (OpKill killer target reason poison)) ->
                      remote_receive own chunks = [Some e']) /\
      e_system U e' = negb poison /\
      e_msg U e' = M_OnKill (RRef (fst killer) (snd killer)) reason poison /\
      e_sender U e' = RRef (fst killer) (snd killer) /\
      e_receiver U e' = RRef own (snd target) /\
      find_mailbox own (e_receiver U e') = ToLocal (snd target).
  Proof.
    intros Hk Ht Ho Sk St Sr.
    destruct (transparent_exact own (OpKill killer target reason poison)) as [H1 H2]; [flat_valid|exact Ho|].
    finish H1 H2.
  Qed.

  (** Watch *)
  Theorem remote_watch own (watcher target : aref) :
    valid_aref watcher -> valid_aref target -> valid_aref (own, snd target) -> small_aref watcher -> small_aref target ->
    exists e',
      remote_transport own (op_envelope (OpWatch watcher target)) = Some e' /\
      (forall chunks, concat chunks = wire_bytes (op_envelope (OpWatch watcher target)) -> remote_receive own chunks = [Some e']) /\
      e_system U e' = true /\ e_msg U e' = M_Empty E_Watch /\
      e_sender U e' = RRef (fst watcher) (snd watcher) /\
      watcher_key (e_sender U e') = fst watcher ++ [64] ++ snd watcher /\
      find_mailbox own (e_receiver U e') = ToLocal (snd target).
  Proof.
    intros Hw Ht Ho Sw St.
    destruct (transparent_exact own (OpWatch watcher target)) as [H1 H2]; [flat_valid|exact Ho|].
    finish H1 H2.
  Qed.

  Theorem remote_unwatch own (watcher target : aref) :
    valid_aref watcher -> valid_aref target -> valid_aref (own, snd target) -> small_aref watcher -> small_aref target ->
    exists e',
      remote_transport own (op_envelope (OpUnwatch watcher target)) = Some e' /\
      (forall chunks, concat chunks = wire_bytes (op_envelope (OpUnwatch watcher target)) -> remote_receive own chunks = [Some e']) /\
      e_system U e' = true /\ e_msg U e' = M_Empty E_Unwatch /\
      watcher_key (e_sender U e') = fst watcher ++ [64] ++ snd watcher /\
      find_mailbox own (e_receiver U e') = ToLocal (snd target).
  Proof.
    intros Hw Ht Ho Sw St.
    destruct (transparent_exact own (OpUnwatch watcher target)) as [H1 H2]; [flat_valid|exact Ho|].
    finish H1 H2.
  Qed.

  (** the whole Watch round between the watcher's system [ownW] and the target's system [ownT]: the watch request
      crosses; when the target terminates it sends OnKilled{Ref: its own ref = (ownT, path)} to the ref onWatch stored
      (the sender of the received request); that envelope crosses back and is enqueued under the watcher's path *)
  Theorem remote_onkilled_names_target ownW ownT (watcher target : aref) :
    valid_aref watcher -> valid_aref (ownW, snd watcher) -> valid_aref target -> valid_aref (ownT, snd target) ->
    small_aref watcher -> small_aref target -> small ownT ->
    exists e1 e2,
      remote_transport ownT (op_envelope (OpWatch watcher target)) = Some e1 /\
      killed_notice U (ownT, snd target) (e_sender U e1) = op_envelope (OpKilledNotice (ownT, snd target) watcher) /\
      remote_transport ownW (killed_notice U (ownT, snd target) (e_sender U e1)) = Some e2 /\
      (forall chunks, concat chunks = wire_bytes (killed_notice U (ownT, snd target) (e_sender U e1)) ->
                      remote_receive ownW chunks = [Some e2]) /\
      e_system U e2 = true /\
      e_msg U e2 = M_OnKilled (RRef ownT (snd target)) /\
      find_mailbox ownW (e_receiver U e2) = ToLocal (snd watcher).
  Proof.
    intros Hw Hw' Ht Ht' Sw St So.
    destruct (transparent_exact ownT (OpWatch watcher target)) as [H1 _]; [flat_valid|exact Ht'|].
    assert (Sself : small_aref (ownT, snd target)) by (split; [exact So|apply St]).
    destruct (transparent_exact ownW (OpKilledNotice (ownT, snd target) watcher)) as [H3 H4]; [flat_valid|exact Hw'|].
    eexists. eexists. split; [exact H1|]. rewrite localized_op. cbn [e_sender].
    split; [reflexivity|]. split; [exact H3|]. split; [exact H4|].
    rewrite localized_op. cbn. repeat split. apply local_route.
  Qed.

  (** Ping / Pong between the asker's system [ownA] and the target's system [ownT] *)
  Theorem remote_ping_pong ownA ownT (agent target : aref) (t now : Z) :
    valid_aref agent -> valid_aref (ownA, snd agent) -> valid_aref target -> valid_aref (ownT, snd target) ->
    small_aref agent -> small_aref target -> small ownT -> in_i64 t -> in_i64 now ->
    exists e1 pong e2,
      remote_transport ownT (op_envelope (OpPing agent target t)) = Some e1 /\
      e_msg U e1 = M_Ping t /\ find_mailbox ownT (e_receiver U e1) = ToLocal (snd target) /\
      on_ping U (ownT, snd target) e1 now = Some pong /\ pong = op_envelope (OpPong (ownT, snd target) agent t now) /\
      remote_transport ownA pong = Some e2 /\
      (forall chunks, concat chunks = wire_bytes pong -> remote_receive ownA chunks = [Some e2]) /\
      e_system U e2 = false /\ e_msg U e2 = M_PongMessage (Some t) now /\
      find_mailbox ownA (e_receiver U e2) = ToLocal (snd agent).
  Proof.
    intros Hg Hg' Ht Ht' Sg St So It In.
    destruct (transparent_exact ownT (OpPing agent target t)) as [H1 _]; [flat_valid|exact Ht'|].
    assert (Sself : small_aref (ownT, snd target)) by (split; [exact So|apply St]).
    destruct (transparent_exact ownA (OpPong (ownT, snd target) agent t now)) as [H3 H4]; [flat_valid|exact Hg'|].
    eexists. eexists. eexists. split; [exact H1|]. rewrite localized_op. cbn [e_msg e_receiver e_sender e_system Transparency.op_envelope Transparency.mk_env].
    split; [reflexivity|]. split; [apply local_route|]. split; [reflexivity|]. split; [reflexivity|].
    split; [exact H3|]. split; [exact H4|]. rewrite localized_op. cbn. repeat split. apply local_route.
  Qed.

  (** Ask / Reply: the request crosses with the agent ref as sender; Reply addresses exactly that ref; the reply
      crosses back and is looked up BY PATH in the asker system's table, where (M7: agent paths are unique) the
      entry is the future of this Ask *)
  Theorem remote_ask_reply ownA ownT (agent target : aref) (m m' : msg) :
    valid_op (OpAsk agent target m) -> valid_aref (ownT, snd target) ->
    valid_op (OpReply (ownT, snd target) agent m') -> valid_aref (ownA, snd agent) ->
    exists e1 e2,
      remote_transport ownT (op_envelope (OpAsk agent target m)) = Some e1 /\
      e_system U e1 = false /\ e_msg U e1 = m /\ e_sender U e1 = RRef (fst agent) (snd agent) /\
      find_mailbox ownT (e_receiver U e1) = ToLocal (snd target) /\
      reply_envelope U (ownT, snd target) e1 m' = op_envelope (OpReply (ownT, snd target) agent m') /\
      remote_transport ownA (reply_envelope U (ownT, snd target) e1 m') = Some e2 /\
      (forall chunks, concat chunks = wire_bytes (reply_envelope U (ownT, snd target) e1 m') -> remote_receive ownA chunks = [Some e2]) /\
      e_system U e2 = false /\ e_msg U e2 = m' /\
      find_mailbox ownA (e_receiver U e2) = ToLocal (snd agent) /\
      forall (X : Type) (table : bytes -> option X) (fut : X),
        table (snd agent) = Some fut ->
        lookup_local table (find_mailbox ownA (e_receiver U e2)) = Some fut.
  Proof.
    intros V1 Ht' V2 Hg'.
    destruct (transparent_exact ownT _ V1 Ht') as [H1 _]. destruct (transparent_exact ownA _ V2 Hg') as [H3 H4].
    eexists. eexists. split; [exact H1|]. rewrite localized_op.
    cbn [Transparency.op_envelope Transparency.mk_env e_system e_msg e_sender e_receiver Transparency.op_sender Transparency.op_receiver snd].
    do 3 (split; [reflexivity|]). split; [apply local_route|]. split; [reflexivity|].
    split; [exact H3|]. split; [exact H4|]. rewrite localized_op.
    cbn [Transparency.op_envelope Transparency.mk_env e_system e_msg e_sender e_receiver Transparency.op_sender Transparency.op_receiver snd].
    do 2 (split; [reflexivity|]). split; [apply local_route|].
    intros X table fut Hf. rewrite local_route. exact Hf.
  Qed.

  (** PipeTo, success: PipeResult{Id, Message, Error} reaches the remote forwarder with the nested message intact *)
  Theorem remote_pipe_success own (self forwarder : aref) (id : bytes) (m : msg) (e : perr) :
    valid_op (OpPipeSuccess self forwarder id m e) -> valid_aref (own, snd forwarder) ->
    exists e',
      remote_transport own (op_envelope (OpPipeSuccess self forwarder id m e)) = Some e' /\
      (forall chunks, concat chunks = wire_bytes (op_envelope (OpPipeSuccess self forwarder id m e)) ->
                      remote_receive own chunks = [Some e']) /\
      e_system U e' = false /\ e_msg U e' = M_PipeResult id m e /\
      e_sender U e' = RRef (fst self) (snd self) /\
      find_mailbox own (e_receiver U e') = ToLocal (snd forwarder).
  Proof. intros V Ho. destruct (transparent_exact own _ V Ho) as [H1 H2]. finish H1 H2. Qed.

  (** PipeTo, failure: a result with a nil Message and an error reaches the remote forwarder; an error that is
      nil or a *vivid.Error with a non-zero registered code (and a non-empty text, or the registered text) comes
      back as the same (code, text) *)
  Theorem remote_pipe_failure own (self forwarder : aref) (id : bytes) (e : perr) :
    valid_aref self -> valid_aref forwarder -> valid_aref (own, snd forwarder) -> small_aref self -> small_aref forwarder ->
    small id -> ty_perr e -> valid_perr qerr e -> match e with PEVivid _ t => small t | _ => True end ->
    exists e',
      remote_transport own (op_envelope (OpPipeFailure self forwarder id e)) = Some e' /\
      (forall chunks, concat chunks = wire_bytes (op_envelope (OpPipeFailure self forwarder id e)) ->
                      remote_receive own chunks = [Some e']) /\
      e_system U e' = false /\ e_msg U e' = M_PipeResultNil id e /\
      find_mailbox own (e_receiver U e') = ToLocal (snd forwarder).
  Proof.
    intros Hs Hf Ho Ss Sf Sid Te Ve St.
    destruct (transparent_exact own (OpPipeFailure self forwarder id e)) as [H1 H2]; [|exact Ho|].
    { apply small_valid; [assumption|assumption|cbn; auto using small_len32|].
      unfold Transparency.small_op; cbn [Transparency.op_sender Transparency.op_receiver].
      split; [assumption|]. split; [assumption|]. split; [assumption|]. destruct e; auto; contradiction. }
    finish H1 H2.
  Qed.

  (** a scheduler firing to a remote receiver: SchedulerMessage{Reference, Message} crosses; onScheduler runs the
      behaviour on the envelope with the scheduled message in place and the scheduling actor as sender *)
  Theorem remote_scheduled own (self receiver : aref) (reference : bytes) (m : msg) :
    valid_op (OpScheduled self receiver reference m) -> valid_aref (own, snd receiver) ->
    exists e' seen,
      remote_transport own (op_envelope (OpScheduled self receiver reference m)) = Some e' /\
      (forall chunks, concat chunks = wire_bytes (op_envelope (OpScheduled self receiver reference m)) ->
                      remote_receive own chunks = [Some e']) /\
      e_system U e' = false /\ e_msg U e' = M_Scheduler reference m /\
      find_mailbox own (e_receiver U e') = ToLocal (snd receiver) /\
      on_scheduler U e' = Some seen /\ e_msg U seen = m /\ e_sender U seen = RRef (fst self) (snd self).
  Proof.
    intros V Ho. destruct (transparent_exact own _ V Ho) as [H1 H2].
    eexists. eexists. split; [exact H1|]. split; [exact H2|]. rewrite localized_op. cbn. repeat split. apply local_route.
  Qed.

  (** ** PipeTo failure with ANY error value: what the remote forwarder sees is pipeResultReader's mapping
      [perr_of_wire] of the (code, text) pipeResultWriter wrote (C12's PipeResult error theorems describe it:
      code 0 reads back as no error, an unregistered code as ErrorException(-1) with a composed text, an empty
      text as the registered text, a foreign error type as ErrorException(-1) "exception: ..."). *)
  (** the envelope reader is parametric in what the body decodes to *)
  Lemma envelope_decode_body (e : envelope) k b m' rest :
    valid_ref (e_sender U e) -> valid_ref (e_receiver U e) ->
    kind_of U (e_msg U e) = Some k -> enc_body U has_codec cenc (e_msg U e) = MOk b -> len32 b ->
    drun (dec_body U has_codec cdec qerr newref (S (length b)) k) b = MOk (m', []) ->
    exists w, enc_envelope e = MOk w /\
      drun dec_envelope (w ++ rest) =
      MOk ({| o_system := e_system U e;
              o_saddr := fst (strs_of (e_sender U e)); o_spath := snd (strs_of (e_sender U e));
              o_raddr := fst (strs_of (e_receiver U e)); o_rpath := snd (strs_of (e_receiver U e));
              o_msg := m' |}, rest).
  Proof.
    destruct e as [sys s r m]. cbn [e_system e_sender e_receiver e_msg]. intros Vs Vr Ek Hb Hlb Hd.
    destruct (strs_valid s Vs) as (Ls1 & Ls2). destruct (strs_valid r Vr) as (Lr1 & Lr2).
    exists (put_lp4 b ++ put_lp4 (name_of k) ++ put_bool sys ++
            put_lp4 (fst (strs_of s)) ++ put_lp4 (snd (strs_of s)) ++ put_lp4 (fst (strs_of r)) ++ put_lp4 (snd (strs_of r))).
    split.
    - unfold Envelope.enc_envelope. cbn [e_system e_sender e_receiver e_msg].
      destruct m; try (cbn in Ek; discriminate); cbn [kind_of] in Ek |- *; injection Ek as <-;
        unfold serialize_remoting; rewrite Hb; cbn [mbind fst snd]; rewrite <- ?app_assoc; reflexivity.
    - unfold Envelope.dec_envelope. pose proof (name_of_len32 k).
      do 7 rt_step. rewrite kind_of_name_of. unfold drun, deserialize_remoting.
      unfold drun in Hd.
      destruct (dec_body U has_codec cdec qerr newref (S (length b)) k b) as [a res]. cbn [snd] in Hd. subst res. reflexivity.
  Qed.

  Lemma transport_from_parts own (e e' : envelope) w o :
    enc_envelope e = MOk w -> legal w -> wire_dec w = Some o -> handle own o = Some e' ->
    remote_transport own e = Some e' /\
    forall chunks, concat chunks = wire_bytes e -> remote_receive own chunks = [Some e'].
  Proof.
    intros Hw Hl Hd Hh.
    assert (Hwire : wire e = Some (frame w)).
    { unfold Transparency.wire. rewrite Hw. apply send_frame_of_legal. exact Hl. }
    assert (Hb : wire_bytes e = frame w) by (unfold Transparency.wire_bytes; rewrite Hwire; reflexivity).
    assert (H1 : forall chunks, concat chunks = wire_bytes e -> remote_receive own chunks = [Some e']).
    { intros chunks E. unfold Transparency.remote_receive.
      rewrite (receive_delivers wire_dec [w] chunks).
      - cbn [decodable]. rewrite Hd. cbn [map]. rewrite Hh. reflexivity.
      - constructor; [exact Hl|constructor].
      - cbn [map concat]. rewrite app_nil_r. rewrite E. exact Hb. }
    split; [|exact H1]. unfold Transparency.remote_transport. rewrite Hwire.
    rewrite (H1 [frame w]); [reflexivity|]. cbn [concat]. rewrite app_nil_r. symmetry. exact Hb.
  Qed.

  Theorem remote_pipe_failure_any_error own (self forwarder : aref) (id : bytes) (e : perr) (c : Z) (t : bytes) :
    valid_aref self -> valid_aref forwarder -> valid_aref (own, snd forwarder) ->
    small_aref self -> small_aref forwarder -> small id ->
    perr_wire e = MOk (c, t) -> in_i32 c -> small t ->
    exists e',
      remote_transport own (op_envelope (OpPipeFailure self forwarder id e)) = Some e' /\
      (forall chunks, concat chunks = wire_bytes (op_envelope (OpPipeFailure self forwarder id e)) ->
                      remote_receive own chunks = [Some e']) /\
      e_system U e' = false /\ e_msg U e' = M_PipeResultNil id (perr_of_wire qerr c t) /\
      e_sender U e' = RRef (fst self) (snd self) /\
      find_mailbox own (e_receiver U e') = ToLocal (snd forwarder).
  Proof.
    intros Hs Hf Ho Ss Sf Sid Hp Hc St.
    set (ev := op_envelope (OpPipeFailure self forwarder id e)).
    assert (Hsm : small_op U (OpPipeFailure self forwarder id e)).
    { unfold Transparency.small_op; cbn [Transparency.op_sender Transparency.op_receiver].
      split; [assumption|]. split; [assumption|]. split; [assumption|].
      destruct e as [|c0 t0|t0|]; cbn [perr_wire] in Hp; try exact I; injection Hp as <- <-; [exact St|].
      unfold small, txt_exception in *. cbn [length app] in St. lia. }
    destruct (builtin_sizes U has_codec cenc _ Hsm) as [Hfit Hfr].
    pose proof (small_len32 _ Sid) as Lid. pose proof (small_len32 _ St) as Lt.
    assert (Hb : enc_body U has_codec cenc (e_msg U ev) = MOk (put_bool false ++ put_lp4 id ++ put_i32 c ++ put_lp4 t)).
    { cbn [ev Transparency.op_envelope Transparency.mk_env e_msg Msgs.enc_body]. rewrite Hp. reflexivity. }
    pose proof (Hfit _ Hb) as Lb.
    destruct (valid_aref_present _ Hs) as (Ps1 & Ps2 & Ps3). destruct (valid_aref_present _ Hf) as (Pf1 & Pf2 & Pf3).
    destruct (valid_aref_present _ Ho) as (Po1 & Po2 & Po3). cbn [fst snd] in Po1, Po2, Po3.
    destruct (envelope_decode_body ev K_PipeResult (put_bool false ++ put_lp4 id ++ put_i32 c ++ put_lp4 t)
                (M_PipeResultNil id (perr_of_wire qerr c t)) []) as (w & Hw & Hd);
      try assumption.
    - cbn. split; assumption.
    - cbn. split; assumption.
    - reflexivity.
    - cbn [Msgs.dec_body fst snd]. rewrite <- (app_nil_r (put_lp4 t)). rt_step. cbv iota. do 4 rt_step. reflexivity.
    - rewrite app_nil_r in Hd.
      assert (Hl : legal w).
      { split; [|apply Hfr; exact Hw]. destruct w as [|x w]; [|cbn [length]; lia].
        exfalso. revert Hd. unfold drun, Envelope.dec_envelope, dbind, d_str. cbn. discriminate. }
      edestruct (transport_from_parts own ev) as [H1 H2]; [exact Hw|exact Hl|unfold Transparency.wire_dec; rewrite Hd; reflexivity| |].
      + unfold Transparency.handle. cbn [o_saddr o_spath o_raddr o_rpath o_system o_msg ev Transparency.op_envelope Transparency.mk_env
                                          e_system e_sender e_receiver e_msg strs_of to_eref fst snd].
        rewrite Ps3, Pf3. cbn [fst snd]. destruct (bytes_eqb (fst forwarder) own) eqn:E.
        * apply bytes_eqb_true in E. rewrite E. reflexivity.
        * rewrite Po3. reflexivity.
      + eexists. split; [exact H1|]. split; [exact H2|]. cbn. repeat split. apply local_route.
  Qed.

  (** ** where a remote target is NOT served like a local one (each by construction of the wire, none a defect
      of the ref handling; the encoder-side ones are in Section Sizes) *)
  (** an envelope without sender (no API operation builds one) would be dropped by HandleRemotingEnvelop:
      NewRef rejects the pair of empty strings *)
  Theorem absent_sender_dropped own (o : envelope_out U) er :
    o_saddr U o = [] -> o_spath U o = [] -> newref [] [] = MErr er -> handle own o = None.
  Proof. intros Ha Hp Hn. unfold Transparency.handle. rewrite Ha, Hp, Hn. reflexivity. Qed.

  (** ** address aliases *)
  (** findMailbox treats a ref whose address string is not the system's own address as remote ... *)
  Theorem alias_address_forwarded (local a p : bytes) : a <> local -> find_mailbox local (RRef a p) = ToRemote a.
  Proof. intros H. unfold find_mailbox. rewrite (bytes_eqb_neq _ _ H). reflexivity. Qed.

  (** ... so HandleRemotingEnvelop must not hand it the wire's address string.  With the repaired handler an
      operation through a ref that carries ANY address string reaching the system is delivered exactly as through
      the ref with the system's own address: same enqueued envelope, local route, nothing is sent again *)
  Theorem alias_address_delivered own (o : op) :
    valid_op o -> valid_aref (own, snd (op_receiver U o)) -> wire_valid (localized U own (op_envelope o)) ->
    exists e',
      remote_transport own (op_envelope o) = Some e' /\
      remote_transport own (localized U own (op_envelope o)) = Some e' /\
      (forall chunks, concat chunks = wire_bytes (op_envelope o) -> remote_receive own chunks = [Some e']) /\
      find_mailbox own (e_receiver U e') = ToLocal (snd (op_receiver U o)) /\
      forall a, find_mailbox own (e_receiver U e') <> ToRemote a.
  Proof.
    intros HV Ho HL. destruct (transparent_exact own o HV Ho) as (H1 & H2).
    assert (Hr : e_receiver U (localized U own (op_envelope o)) = RRef own (snd (op_receiver U o)))
      by (rewrite localized_op; reflexivity).
    destruct (transport_one own (localized U own (op_envelope o))) as (H3 & _).
    { eapply wire_valid_deliverable; [exact Hr|exact HL]. }
    rewrite (localized_canonical own _ _ Hr) in H3.
    exists (localized U own (op_envelope o)). split; [exact H1|]. split; [exact H3|]. split; [exact H2|].
    rewrite Hr, local_route. split; [reflexivity|]. intros a; discriminate.
  Qed.

  (** regression: the handler before the fix enqueued the envelope with the wire's address string, which
      findMailbox routes to the remoting mailbox of that string again; what that mailbox sends is the same
      envelope once more - the system sent the envelope to itself for ever and never delivered it *)
  Theorem alias_loop_before_fix own (o : op) :
    valid_op o -> fst (op_receiver U o) <> own ->
    (forall chunks, concat chunks = wire_bytes (op_envelope o) ->
                    remote_receive_before_fix U has_codec cdec qerr newref chunks = [Some (op_envelope o)]) /\
    find_mailbox own (e_receiver U (op_envelope o)) = ToRemote (fst (op_receiver U o)).
  Proof.
    intros HV Hne. split; [|apply routing; exact Hne].
    intros chunks E. unfold Transparency.remote_receive_before_fix.
    pose proof (valid_op_wire_valid o HV) as HW.
    apply (transport_stream_gen (handle_before_fix U newref) (fun e => e) [op_envelope o] chunks).
    - constructor; [exact HW|constructor].
    - constructor; [|constructor]. apply handle_before_fix_expected; apply HW.
    - cbn [map concat]. rewrite app_nil_r. exact E.
  Qed.
End T.

(** * Link to the local semantics (Actor/Core.v, the lock-step validated model of internal/actor).

    Core.v is a ONE-system model: a ref is [RObj a] (the ref object owned by context [a], with its mailbox
    cache), [RFresh p] (a parsed / rebuilt ref: path only, no cache) or [RNone]; addresses do not occur.
    An envelope that arrives through HandleRemotingEnvelop carries refs built by NewRef, i.e. [RFresh]
    refs; the envelope a local call enqueues carries the sender's own ref object [RObj b].  What follows
    shows exactly where that difference can and cannot be seen:
      - [deliver] (Enqueue into the looked-up mailbox) and [dispatch] (Context.HandleEnvelop) use the sender
        ref only through [ref_path]; the ref object itself is merely STORED (current envelope, watcher table);
      - the stored ref is used again only by [resolve] (findMailbox, e.g. for Reply and for the OnKilled sent
        to a watcher), where an [RObj] goes through its mailbox cache and an [RFresh] through the registry:
        they agree while the cache is coherent with the registry and differ after the path was released or
        re-registered ([resolve_identity_witness]);
      - [IOnKilled] removes a child entry only for the very ref object of that child ([RObj c] with the
        registered context), never for a rebuilt ref: an OnKilled from another system can never remove a
        local child that happens to have the same path. *)
Module CoreLink.
  Import Vivid.Actor.Core.
  Import CoreView.

  Lemma map_upd {A B} (f : A -> B) (l : list A) i x : map f (upd l i x) = upd (map f l) i (f x).
  Proof. revert i. induction l as [|y l IH]; intros [|i]; cbn; try reflexivity. rewrite IH. reflexivity. Qed.

  Lemma erase_ref_of_path s r1 r2 : ref_path s r1 = ref_path s r2 -> erase_ref s r1 = erase_ref s r2.
  Proof. unfold erase_ref. intros ->. reflexivity. Qed.

  (** Context.HandleEnvelop depends on the sender ref only through its path: same instruction list, and the
      same state up to the identity of the sender ref stored in the current envelope / the watcher table *)
  Theorem dispatch_sender_path_only (s : state) (a : aid) (x : actor) (sy : bool) (r1 r2 : rref) (m : msg) :
    ref_path s r1 = ref_path s r2 ->
    snd (dispatch s a x (mk sy r1 m)) = snd (dispatch s a x (mk sy r2 m)) /\
    erase_state s (fst (dispatch s a x (mk sy r1 m))) = erase_state s (fst (dispatch s a x (mk sy r2 m))).
  Proof.
    intros H. pose proof (erase_ref_of_path s r1 r2 H) as HE.
    unfold dispatch, mk. cbn [e_sys e_msg e_sender].
    destruct (_ && negb (a_zombie x)).
    { destruct (a_parent x); split; reflexivity. }
    destruct m; cbn [e_sys e_msg e_sender]; unfold ref_eq; rewrite ?H;
      unfold set_state, set_restarting, set_decisions, set_watchers, upd_local, set_mb;
      cbn [a_path a_gen a_parent a_spec a_state a_zombie a_restarting a_children a_watchers a_stash a_modes a_inst
           a_decisions a_hooks a_cache a_sq a_uq a_paused a_cons a_cur a_pend];
      repeat match goal with
             | |- context [match ?t with _ => _ end] =>
                 lazymatch t with
                 | context [r1] => fail
                 | _ => destruct t
                 end
             end;
      (split; [reflexivity|]);
      unfold erase_state, set_actor, add_ghost; cbn [fst snd actors reg gens subs exts olog ghost err]; f_equal;
      rewrite ?map_upd; f_equal;
      unfold erase_actor, set_state, set_restarting, set_decisions, set_watchers, upd_local, set_mb;
      cbn [a_path a_gen a_parent a_spec a_state a_zombie a_restarting a_children a_watchers a_stash a_modes a_inst
           a_decisions a_hooks a_cache a_sq a_uq a_paused a_cons a_cur a_pend option_map];
      unfold erase_env; cbn [e_sys e_sender e_msg]; rewrite ?map_app; cbn [map fst snd]; rewrite ?HE; reflexivity.
  Qed.

  (** the case at hand: a locally sent envelope carries the sender's own ref object, the same envelope received
      through remoting carries a rebuilt ref with the same path *)
  Corollary dispatch_remote_like_local (s : state) (a b : aid) (x y : actor) (sy : bool) (m : msg) :
    get s b = Some y ->
    snd (dispatch s a x (mk sy (RObj b) m)) = snd (dispatch s a x (mk sy (RFresh (a_path y)) m)) /\
    erase_state s (fst (dispatch s a x (mk sy (RObj b) m))) = erase_state s (fst (dispatch s a x (mk sy (RFresh (a_path y)) m))).
  Proof. intros Hg. apply dispatch_sender_path_only. cbn [ref_path]. rewrite Hg. reflexivity. Qed.

  (** Enqueue: the mailbox, the queue (system / user) and the position (the tail) do not depend on the sender
      ref; a dead-letter report does not even contain it *)
  Theorem deliver_sender_irrelevant (s : state) (mb : mbox) (sy : bool) (r1 r2 : rref) (m : msg) :
    snd (deliver s mb (mk sy r1 m)) = snd (deliver s mb (mk sy r2 m)) /\
    (mb = MbDead -> fst (deliver s mb (mk sy r1 m)) = fst (deliver s mb (mk sy r2 m))) /\
    (forall r, fst (deliver s mb (mk sy r m)) =
               push_mb s (snd (deliver s mb (mk sy r m)))
                 (match mb with
                  | MbDead => {| e_sys := false; e_sender := root_ref; e_msg := MDeadLetter sy m |}
                  | _ => mk sy r m
                  end)).
  Proof. destruct mb; (split; [reflexivity|split; [intros E; try discriminate E; reflexivity|intros r; reflexivity]]). Qed.

  (** findMailbox: the ref object of a context and a rebuilt ref with its path reach the same mailbox as long as
      the object's mailbox cache agrees with the registry *)
  Theorem resolve_obj_fresh_agree (s : state) (a : aid) (x : actor) :
    get s a = Some x ->
    (forall y, a_cache x = Some y -> alookup (reg s) (a_path x) = Some y) ->
    fst (resolve s (RObj a)) = fst (resolve s (RFresh (a_path x))).
  Proof.
    intros Hg Hc. unfold resolve. rewrite Hg. destruct (a_cache x) as [y|] eqn:E.
    - rewrite (Hc y eq_refl). reflexivity.
    - destruct (alookup (reg s) (a_path x)); [reflexivity|]. destruct (path_eqb (a_path x) []); reflexivity.
  Qed.

  (** ... and this is where ref identity matters: after the context that owned the path has been released and
      the path registered again (name reuse), the cached ref object still reaches the OLD mailbox (whose
      context reports dead letters) while a rebuilt ref reaches the NEW context.  The state below has that
      shape: actor 1 = the old context of path [7] with its cache filled, actor 2 = the new context
      registered under [7]. *)
  Theorem resolve_identity_witness :
    get reuse_state 1 = Some old_ctx /\
    fst (resolve reuse_state (RObj 1)) = MbActor 1 /\
    fst (resolve reuse_state (RFresh (a_path old_ctx))) = MbActor 2.
  Proof. repeat split. Qed.

  (** OnKilled naming a rebuilt ref never removes a child entry (removeChild compares the ref objects): the
      handler leaves the context unchanged and runs the OnKilled behaviour *)
  Theorem onkilled_fresh_keeps_children (s : state) (t : tid) (held : list aid) (x : actor) (p : path) :
    get s (self_of t) = Some x -> a_zombie x = false -> ref_eq s (RFresh p) (RObj (self_of t)) = false ->
    exec1 s t held (IOnKilled (RFresh p)) =
    (set_actor s (self_of t) x, [IBeh (MKilled (RFresh p)) (sp_killed (a_spec x)) (RecKilled (RFresh p)); ICheckMark]).
  Proof. intros Hg Hz He. unfold exec1. rewrite Hg. cbv zeta. rewrite Hz, He. reflexivity. Qed.
End CoreLink.
