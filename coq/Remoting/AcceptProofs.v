(** Lemmas about Remoting/Accept.v. *)
From Coq Require Import List NArith Bool Lia.
From Vivid Require Import Codec.Prim Remoting.Churn Remoting.ChurnProofs Remoting.Accept.
Import ListNotations.

Lemma reg_mem_del_other p q r : bytes_eqb q p = false -> reg_mem p (reg_del q r) = reg_mem p r.
Proof.
  intros H. induction r as [|x r IH]; [reflexivity|]. cbn [reg_del reg_mem].
  destruct (bytes_eqb x q) eqn:E.
  - rewrite IH. apply bytes_eqb_eq in E. subst x. now rewrite H.
  - cbn [reg_mem]. now rewrite IH.
Qed.

Lemma reg_mem_del_same p r : reg_mem p (reg_del p r) = false.
Proof.
  induction r as [|x r IH]; [reflexivity|]. cbn [reg_del]. destruct (bytes_eqb x p) eqn:E; [exact IH|].
  cbn [reg_mem]. now rewrite E, IH.
Qed.

(** the registry after a history *)
Fixpoint reg_after (evs : list aev) (r : areg) : areg :=
  match evs with
  | [] => r
  | AAccept p _ :: t => reg_after t (if reg_mem p r then r else p :: r)
  | AGone _ :: t => reg_after t r
  | AReaderEnd p :: t => reg_after t (reg_del p r)
  end.

Lemma accept_run_app a b r : accept_run (a ++ b) r = accept_run a r ++ accept_run b (reg_after a r).
Proof.
  revert r. induction a as [|e a IH]; intros r; [reflexivity|]. destruct e as [p n|p|p]; cbn [app accept_run reg_after].
  - destruct (reg_mem p r); cbn [app]; now rewrite IH.
  - apply IH.
  - apply IH.
Qed.

Lemma accept_run_length a r : length (accept_run a r) = accepts a.
Proof.
  revert r. induction a as [|e a IH]; intros r; [reflexivity|]. destruct e as [p n|p|p]; cbn [accept_run accepts].
  - destruct (reg_mem p r); cbn [length]; now rewrite IH.
  - apply IH.
  - apply IH.
Qed.

(** the name of p is taken exactly while the reader of the latest connection from p has not ended *)
Lemma reg_mem_after p : forall evs r, reg_mem p (reg_after evs r) = reader_pending p evs (reg_mem p r).
Proof.
  induction evs as [|e evs IH]; intros r; [reflexivity|]. destruct e as [q n|q|q]; cbn [reg_after reader_pending].
  - rewrite IH. f_equal. destruct (bytes_eqb q p) eqn:E.
    + apply bytes_eqb_eq in E. subst q. destruct (reg_mem p r) eqn:M; [exact M|]. cbn [reg_mem]. now rewrite bytes_eqb_refl.
    + destruct (reg_mem q r); [reflexivity|]. cbn [reg_mem]. now rewrite E.
  - apply IH.
  - rewrite IH. f_equal. destruct (bytes_eqb q p) eqn:E.
    + apply bytes_eqb_eq in E. subst q. apply reg_mem_del_same.
    + now apply reg_mem_del_other.
Qed.

(** EVERY ACCEPTED CONNECTION WHOSE PREDECESSOR'S READER HAS ENDED IS READ - whatever else happened before, to this
    or to any other peer address (re-used addresses, FIN, RST, unread connections included), and whatever happens after *)
Theorem accepted_after_reader_end_is_read pre p n post :
  reader_pending p pre false = false ->
  exists a b, accept_run (pre ++ AAccept p n :: post) [] = a ++ (p, n, n) :: b /\ length a = accepts pre.
Proof.
  intros H. rewrite accept_run_app. cbn [accept_run].
  assert (M : reg_mem p (reg_after pre []) = false) by (rewrite reg_mem_after; exact H).
  rewrite M. eexists _, _. split; [reflexivity|]. apply accept_run_length.
Qed.

(** hence: when every connection is accepted only after its predecessor's reader has ended, all are read *)
Lemma prompt_all_read : forall evs seen,
  prompt evs seen -> all_read (accept_run evs (reg_after seen [])).
Proof.
  induction evs as [|e evs IH]; intros seen Hp; [constructor|]. destruct e as [p n|p|p]; cbn [prompt accept_run] in *.
  - destruct Hp as [Hp1 Hp2]. rewrite reg_mem_after. cbn [reg_mem]. rewrite Hp1. constructor; [reflexivity|].
    specialize (IH _ Hp2). replace (reg_after (seen ++ [AAccept p n]) []) with (p :: reg_after seen []) in IH; [exact IH|].
    clear -Hp1. assert (G : forall s r, reg_after (s ++ [AAccept p n]) r = if reg_mem p (reg_after s r) then reg_after s r else p :: reg_after s r).
    { induction s as [|e s IHs]; intros r; [reflexivity|]. destruct e; cbn [app reg_after]; apply IHs. }
    rewrite G, reg_mem_after. cbn [reg_mem]. now rewrite Hp1.
  - specialize (IH _ Hp). replace (reg_after (seen ++ [AGone p]) []) with (reg_after seen []) in IH; [exact IH|].
    assert (G : forall s r, reg_after (s ++ [AGone p]) r = reg_after s r).
    { induction s as [|e s IHs]; intros r; [reflexivity|]. destruct e; cbn [app reg_after]; apply IHs. }
    now rewrite G.
  - specialize (IH _ Hp). replace (reg_after (seen ++ [AReaderEnd p]) []) with (reg_del p (reg_after seen [])) in IH; [exact IH|].
    assert (G : forall s r, reg_after (s ++ [AReaderEnd p]) r = reg_del p (reg_after s r)).
    { induction s as [|e s IHs]; intros r; [reflexivity|]. destruct e; cbn [app reg_after]; apply IHs. }
    now rewrite G.
Qed.

Theorem prompt_accepts_all_read evs : prompt evs [] -> all_read (accept_run evs []).
Proof. intros H. exact (prompt_all_read evs [] H). Qed.

(** the residual window: connection 1 from peer port P gets 3 frames and is reset; the kernel accepts connection 2 from
    the same P, 5 frames are written into it; only then the reader of connection 1 reaches the end of what was queued
    for it.  TCP allows it; connection 2 is never read. *)
Definition peerP : bytes := [49; 50; 55; 46; 48; 46; 48; 46; 49; 58; 52; 52; 56; 57; 55]%N.   (* "127.0.0.1:44897" *)

Lemma accepted_before_reader_end_unread :
  exists (evs : list aev),
    tcp_ok evs [] = true /\ ~ all_read (accept_run evs []) /\
    accept_run evs [] = [(peerP, 3, 3); (peerP, 5, 0)]%N.
Proof.
  exists [AAccept peerP 3; AGone peerP; AAccept peerP 5; AReaderEnd peerP].
  assert (B : accept_run [AAccept peerP 3; AGone peerP; AAccept peerP 5; AReaderEnd peerP] [] = [(peerP, 3, 3); (peerP, 5, 0)]%N)
    by (vm_compute; reflexivity).
  split; [vm_compute; reflexivity|]. split; [|exact B].
  rewrite B. intros H. inversion H as [|? ? _ H2]; subst. inversion H2 as [|? ? H3 _]; subst. cbn in H3. discriminate.
Qed.

(** the same history with the reader ending first: both connections are read (also after a plain FIN: the repaired defect) *)
Lemma reader_end_first_all_read :
  prompt [AAccept peerP 3; AGone peerP; AReaderEnd peerP; AAccept peerP 5] [] /\
  accept_run [AAccept peerP 3; AGone peerP; AReaderEnd peerP; AAccept peerP 5] [] = [(peerP, 3, 3); (peerP, 5, 5)]%N.
Proof. split; [cbn; repeat split; vm_compute; reflexivity|vm_compute; reflexivity]. Qed.
