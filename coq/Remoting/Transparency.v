(** C15 — location transparency.  Definitions only (proofs: Remoting/TransparencyProofs.v, statements:
    Properties/C15.v).

    What is modelled, with the Go code it stands for (all in /repo):

    - [op] / [op_envelope]: every operation of ActorContext / ActorSystem that takes an ActorRef, and the
      envelope [Context.tell] / [Context.ask] builds for it (internal/actor/context.go: tell, ask, Reply, Kill,
      Watch, Unwatch, Ping, onPing, PipeTo; killed_handler.go cleanupIfNotRestarting; scheduler.go tell).
      A reference is the pair (address, path) of a [*Ref] made by NewRef; the model has NO notion of the
      identity of a ref object, so "modulo ref identity" is built into the representation.
    - [find_mailbox]: System.findMailbox for a ref without a mailbox cache (a ref whose address is not the
      local one never gets a cache; HandleRemotingEnvelop always builds fresh refs).
    - [wire]: the sender's remoting mailbox on a healthy link (M5): EncodeEnvelopWithRemoting
      ([Codec.Envelope.enc_envelope], C12) then encodeEnvelopWithLength ([Frame.send_frame], C11).
    - [remote_receive own]: the receiving connection actor of the system whose own (advertised) address is [own]:
      the frame reader as coded ([Frame.receive], any list of conn.Read results), DecodeEnvelopWithRemoting as its
      decoder ([wire_dec]), then System.HandleRemotingEnvelop ([handle own]: both refs rebuilt with NewRef, the
      receiver re-addressed to [own] when the wire carries another address string, envelope enqueued into
      findMailbox(receiver)).
    - [remote_transport own e]: [wire] then [remote_receive own] on the unsplit frame;
      TransparencyProofs.transport_chunking shows that every other chunking of the same bytes gives the same result.

    User code enters as in Codec/Msgs.v: the Codec ([has_codec], [cenc], [cdec]; M9 is part of [valid_msg]),
    the error registry [qerr], and [newref] = actor.NewRef, which is both the ActorRef factory of the message
    readers and the function HandleRemotingEnvelop calls (ref.go init registers NewRef as the factory). *)
From Coq Require Import List NArith ZArith Lia Bool.
From stdpp Require Import gmap.
From Vivid Require Import Codec.Prim Codec.MsgPrim Cluster.VV Codec.ClusterMsgs Codec.Msgs Remoting.Frame Codec.Envelope.
From Vivid Require Actor.Core.
Local Open Scope N_scope.

(** a [*Ref] made by NewRef: (address, path) *)
Notation aref := (bytes * bytes)%type.
Definition to_eref (r : aref) : eref := RRef (fst r) (snd r).

(** System.findMailbox on a ref without cache: remoting mailbox of the address, or the local table by path;
    a nil ref falls back to the root's mailbox *)
Inductive route : Type := ToRemote (addr : bytes) | ToLocal (path : bytes) | ToRoot.
Definition find_mailbox (local_addr : bytes) (r : eref) : route :=
  match r with
  | RRef a p => if bytes_eqb a local_addr then ToLocal p else ToRemote a
  | _ => ToRoot
  end.

(** the local table (System.actorContexts: contexts and pending futures by path) consulted for a local route *)
Definition lookup_local {X : Type} (table : bytes -> option X) (r : route) : option X :=
  match r with ToLocal p => table p | _ => None end.

(** Ref.Equals: address and path *)
Definition ref_equals (r1 r2 : eref) : bool :=
  match r1, r2 with
  | RRef a p, RRef a' p' => bytes_eqb a a' && bytes_eqb p p'
  | _, _ => false
  end.
(** the key of Context.watchers: fmt.Sprintf("%s@%s", address, path) *)
Definition watcher_key (r : eref) : bytes := fst (strs_of r) ++ [64] ++ snd (strs_of r).

Section Transparency.
  Variable U : Type.
  Variable has_codec : bool.
  Variable cenc : U -> mres bytes.
  Variable cdec : bytes -> mres U.
  Variable qerr : Z -> option bytes.
  Variable newref : bytes -> bytes -> mres (bytes * bytes).

  Notation msg := (msg U).
  Notation envelope := (envelope U).
  Notation envelope_out := (envelope_out U).

  (** * the operations with an ActorRef parameter *)
  Inductive op : Type :=
  | OpTell (self target : aref) (m : msg)             (* Tell(target, m): any message, registered or through the Codec *)
  | OpAsk (agent target : aref) (m : msg)             (* Ask(target, m): the sender is the future's agent ref *)
  | OpReply (self asker : aref) (m : msg)             (* Reply(m) = Tell(envelope.Sender(), m) *)
  | OpKill (self target : aref) (reason : bytes) (poison : bool)
  | OpWatch (self target : aref)
  | OpUnwatch (self target : aref)
  | OpPing (agent target : aref) (t : Z)              (* Ping(target) = Ask(target, PingMessage{Time: t}) *)
  | OpPong (self asker : aref) (ping resp : Z)        (* onPing: Reply(PongMessage{Ping, RespondTime}) *)
  | OpKilledNotice (self watcher : aref)              (* cleanupIfNotRestarting: OnKilled{Ref: self} to a watcher / the parent *)
  | OpPipeSuccess (self forwarder : aref) (id : bytes) (m : msg) (e : perr)   (* PipeResult with Message != nil *)
  | OpPipeFailure (self forwarder : aref) (id : bytes) (e : perr)             (* PipeResult with Message == nil *)
  | OpScheduled (self receiver : aref) (reference : bytes) (m : msg).         (* Scheduler.tell: SchedulerMessage *)

  Definition mk_env (sys : bool) (s r : aref) (m : msg) : envelope :=
    {| e_system := sys; e_sender := to_eref s; e_receiver := to_eref r; e_msg := m |}.

  (** mailbox.NewEnvelop(system, sender, recipient, message) as each operation calls it *)
  Definition op_envelope (o : op) : envelope :=
    match o with
    | OpTell s t m => mk_env false s t m
    | OpAsk g t m => mk_env false g t m
    | OpReply s a m => mk_env false s a m
    | OpKill s t reason poison => mk_env (negb poison) s t (M_OnKill (to_eref s) reason poison)
    | OpWatch s t => mk_env true s t (M_Empty E_Watch)
    | OpUnwatch s t => mk_env true s t (M_Empty E_Unwatch)
    | OpPing g t time => mk_env false g t (M_Ping time)
    | OpPong s a ping resp => mk_env false s a (M_PongMessage (Some ping) resp)
    | OpKilledNotice s w => mk_env true s w (M_OnKilled (to_eref s))
    | OpPipeSuccess s f id m e => mk_env false s f (M_PipeResult id m e)
    | OpPipeFailure s f id e => mk_env false s f (M_PipeResultNil id e)
    | OpScheduled s r reference m => mk_env false s r (M_Scheduler reference m)
    end.

  Definition op_sender (o : op) : aref :=
    match o with
    | OpTell s _ _ | OpAsk s _ _ | OpReply s _ _ | OpKill s _ _ _ | OpWatch s _ | OpUnwatch s _ | OpPing s _ _
    | OpPong s _ _ _ | OpKilledNotice s _ | OpPipeSuccess s _ _ _ _ | OpPipeFailure s _ _ _ | OpScheduled s _ _ _ => s
    end.
  Definition op_receiver (o : op) : aref :=
    match o with
    | OpTell _ r _ | OpAsk _ r _ | OpReply _ r _ | OpKill _ r _ _ | OpWatch _ r | OpUnwatch _ r | OpPing _ r _
    | OpPong _ r _ _ | OpKilledNotice _ r | OpPipeSuccess _ r _ _ _ | OpPipeFailure _ r _ _ | OpScheduled _ r _ _ => r
    end.

  (** what the receiving context does with the three request kinds that it answers itself *)
  (* Context.Reply(m) while handling [received] *)
  Definition reply_envelope (self : aref) (received : envelope) (m : msg) : envelope :=
    {| e_system := false; e_sender := to_eref self; e_receiver := e_sender U received; e_msg := m |}.
  (* Context.onPing: Reply(&PongMessage{Ping: message, RespondTime: now}) *)
  Definition on_ping (self : aref) (received : envelope) (now : Z) : option envelope :=
    match e_msg U received with
    | M_Ping t => Some (reply_envelope self received (M_PongMessage (Some t) now))
    | _ => None
    end.
  (* cleanupIfNotRestarting: tell(true, watcher, &OnKilled{Ref: c.ref}) for a watcher ref stored by onWatch *)
  Definition killed_notice (self : aref) (watcher : eref) : envelope :=
    {| e_system := true; e_sender := to_eref self; e_receiver := watcher; e_msg := M_OnKilled (to_eref self) |}.
  (* Context.onScheduler: the behaviour runs on the envelope with the message replaced by the scheduled one *)
  Definition on_scheduler (received : envelope) : option envelope :=
    match e_msg U received with
    | M_Scheduler _ m => Some {| e_system := e_system U received; e_sender := e_sender U received;
                                 e_receiver := e_receiver U received; e_msg := m |}
    | _ => None
    end.

  (** * the wire *)
  (** sender: Mailbox.Enqueue on a healthy link: encode, refuse an empty or > 4 MiB body, prefix the length *)
  Definition wire (e : envelope) : option bytes :=
    match enc_envelope U has_codec cenc e with
    | MOk b => send_frame b
    | MErr _ => None
    end.
  Definition wire_bytes (e : envelope) : bytes := match wire e with Some fr => fr | None => [] end.

  (** receiver: serialize.DecodeEnvelopWithRemoting, the decoder the frame reader calls on every body *)
  Definition wire_dec (b : bytes) : option envelope_out :=
    match drun (dec_envelope U has_codec cdec qerr newref) b with
    | MOk (o, _) => Some o
    | MErr _ => None
    end.

  (** System.HandleRemotingEnvelop on the system whose own address is [own]: NewRef on both string pairs (an error
      drops the message); the frame arrived on THIS system's listener, so a receiver whose (normalised) address
      is not [own] - the sender dialled an alias: localhost / 127.0.0.1, a DNS name, a NAT address - is rebuilt as
      NewRef(own, receiverPath) (fix 4acc67b); then NewEnvelop(system, sender, receiver, message) is enqueued
      into findMailbox(receiver) *)
  Definition handle (own : bytes) (o : envelope_out) : option envelope :=
    match newref (o_saddr U o) (o_spath U o), newref (o_raddr U o) (o_rpath U o) with
    | MOk s, MOk r =>
        if bytes_eqb (fst r) own then
          Some {| e_system := o_system U o; e_sender := to_eref s; e_receiver := to_eref r; e_msg := o_msg U o |}
        else
          match newref own (o_rpath U o) with
          | MOk r' => Some {| e_system := o_system U o; e_sender := to_eref s; e_receiver := to_eref r'; e_msg := o_msg U o |}
          | MErr _ => None
          end
    | _, _ => None
    end.
  (** the handler as it was before that fix (kept for the regression example C15_ex_alias_loop_before_fix) *)
  Definition handle_before_fix (o : envelope_out) : option envelope :=
    match newref (o_saddr U o) (o_spath U o), newref (o_raddr U o) (o_rpath U o) with
    | MOk s, MOk r => Some {| e_system := o_system U o; e_sender := to_eref s; e_receiver := to_eref r; e_msg := o_msg U o |}
    | _, _ => None
    end.

  (** everything one connection hands to the mailboxes of the receiving system [own], in order, for the reads [chunks] *)
  Definition remote_receive (own : bytes) (chunks : list bytes) : list (option envelope) :=
    map (handle own) (delivered (receive wire_dec chunks)).
  Definition remote_receive_before_fix (chunks : list bytes) : list (option envelope) :=
    map handle_before_fix (delivered (receive wire_dec chunks)).

  (** encode -> frame -> (one read) -> parse -> decode -> rebuild the refs on the system [own] *)
  Definition remote_transport (own : bytes) (e : envelope) : option envelope :=
    match wire e with
    | Some fr => match remote_receive own [fr] with [r] => r | _ => None end
    | None => None
    end.

  (** the envelope a call on the target system itself builds for the same operation: the receiver ref carries the
      system's own address (for a ref with the canonical address this is the envelope itself) *)
  Definition localized (own : bytes) (e : envelope) : envelope :=
    {| e_system := e_system U e; e_sender := e_sender U e;
       e_receiver := match e_receiver U e with RRef _ p => RRef own p | r => r end;
       e_msg := e_msg U e |}.

  (** * what "the same envelope" means: system flag, message, sender (address, path), receiver (address, path).
      Ref identity is not part of the model. *)
  Definition env_equiv (e1 e2 : envelope) : Prop :=
    e_system U e1 = e_system U e2 /\ e_msg U e1 = e_msg U e2 /\
    strs_of (e_sender U e1) = strs_of (e_sender U e2) /\ strs_of (e_receiver U e1) = strs_of (e_receiver U e2).

  (** * wire validity *)
  (** a present ref made by NewRef: NewRef accepts its (address, path) unchanged (NewRef idempotence) *)
  Definition present_ref (r : eref) : Prop :=
    match r with
    | RRef a p => len32 a /\ len32 p /\ newref a p = MOk (a, p)
    | _ => False
    end.
  (** the same, usable inside OnKill / OnKilled as well (C12's [valid_kref]: additionally not two empty strings) *)
  Definition valid_aref (r : aref) : Prop := valid_kref newref (to_eref r).

  (** the encoded envelope fits a frame (the sender refuses more than 4 MiB) *)
  Definition frame_ok (e : envelope) : Prop :=
    forall w, enc_envelope U has_codec cenc e = MOk w -> N.of_nat (length w) <= max_frame.

  Definition wire_valid (e : envelope) : Prop :=
    present_ref (e_sender U e) /\ present_ref (e_receiver U e) /\
    ty_msg U (e_msg U e) /\ valid_msg U has_codec cenc cdec qerr newref (e_msg U e) /\
    fits U has_codec cenc (e_msg U e) /\ frame_ok e.

  (** per operation: the refs, the fields of the built-in message (C12's conditions, spelled out), a user
      payload that is a valid registered message or satisfies M9, and the two size conditions *)
  Definition valid_fields (o : op) : Prop :=
    match o with
    | OpTell _ _ m | OpAsk _ _ m | OpReply _ _ m => ty_msg U m /\ valid_msg U has_codec cenc cdec qerr newref m
    | OpKill _ _ reason _ => len32 reason
    | OpWatch _ _ | OpUnwatch _ _ | OpKilledNotice _ _ => True
    | OpPing _ _ t => in_i64 t
    | OpPong _ _ ping resp => in_i64 ping /\ in_i64 resp
    | OpPipeSuccess _ _ id m e =>
        ty_msg U m /\ ty_perr e /\ len32 id /\ valid_msg U has_codec cenc cdec qerr newref m /\ fits U has_codec cenc m /\
        valid_perr qerr e
    | OpPipeFailure _ _ id e => ty_perr e /\ len32 id /\ valid_perr qerr e
    | OpScheduled _ _ reference m =>
        ty_msg U m /\ len32 reference /\ valid_msg U has_codec cenc cdec qerr newref m /\ fits U has_codec cenc m
    end.
  Definition valid_op (o : op) : Prop :=
    valid_aref (op_sender o) /\ valid_aref (op_receiver o) /\ valid_fields o /\
    fits U has_codec cenc (e_msg U (op_envelope o)) /\ frame_ok (op_envelope o).

  (** the operations whose message is a flat built-in (no nested message, no user payload): for these the two
      size conditions follow from bounds on the strings ([small_op], TransparencyProofs.builtin_sizes) *)
  Definition small (b : bytes) : Prop := N.of_nat (length b) <= 65536.
  Definition small_aref (r : aref) : Prop := small (fst r) /\ small (snd r).
  Definition small_op (o : op) : Prop :=
    small_aref (op_sender o) /\ small_aref (op_receiver o) /\
    match o with
    | OpKill _ _ reason _ => small reason
    | OpWatch _ _ | OpUnwatch _ _ | OpPing _ _ _ | OpPong _ _ _ _ | OpKilledNotice _ _ => True
    | OpPipeFailure _ _ id e =>
        small id /\ match e with PEVivid _ t => small t | PEOther t => small t | _ => True end
    | _ => False
    end.
End Transparency.

Arguments OpTell {U}. Arguments OpAsk {U}. Arguments OpReply {U}. Arguments OpKill {U}. Arguments OpWatch {U}.
Arguments OpUnwatch {U}. Arguments OpPing {U}. Arguments OpPong {U}. Arguments OpKilledNotice {U}.
Arguments OpPipeSuccess {U}. Arguments OpPipeFailure {U}. Arguments OpScheduled {U}.

(** * the view of the local semantics (Actor/Core.v) used by the link theorems: Core.v is a one-system model whose
    refs are [RObj a] (the ref object of context [a], with a mailbox cache), [RFresh p] (a rebuilt ref: path
    only) or [RNone].  [erase_state] forgets the IDENTITY of the sender refs a context stores (current
    envelope, watcher table) and keeps their paths. *)
Module CoreView.
  Import Vivid.Actor.Core.
  Definition mk (sy : bool) (r : rref) (m : msg) : envelope := {| e_sys := sy; e_sender := r; e_msg := m |}.

  (** forget the identity of a ref, keep its path *)
  Definition erase_ref (s : state) (r : rref) : rref :=
    match ref_path s r with Some p => RFresh p | None => RNone end.
  Definition erase_env (s : state) (e : envelope) : envelope :=
    {| e_sys := e_sys e; e_sender := erase_ref s (e_sender e); e_msg := e_msg e |}.
  (** the two places where a context stores the sender ref of an envelope *)
  Definition erase_actor (s : state) (x : actor) : actor :=
    {| a_path := a_path x; a_gen := a_gen x; a_parent := a_parent x; a_spec := a_spec x; a_state := a_state x; a_zombie := a_zombie x;
       a_restarting := a_restarting x; a_children := a_children x;
       a_watchers := map (fun pr => (fst pr, erase_ref s (snd pr))) (a_watchers x);
       a_stash := a_stash x; a_modes := a_modes x; a_inst := a_inst x; a_decisions := a_decisions x; a_hooks := a_hooks x;
       a_cache := a_cache x; a_sq := a_sq x; a_uq := a_uq x; a_paused := a_paused x; a_cons := a_cons x;
       a_cur := option_map (erase_env s) (a_cur x); a_pend := a_pend x |}.
  Definition erase_state (s0 s : state) : state :=
    {| actors := map (erase_actor s0) (actors s); reg := reg s; gens := gens s; subs := subs s; exts := exts s;
       olog := olog s; ghost := ghost s; err := err s |}.


  (** a state of the shape "path [7] was released and registered again": actor 1 = the old context with its
      ref's mailbox cache filled, actor 2 = the new context registered under [7] *)
  Definition old_ctx : actor :=
    {| a_path := [7%N]; a_gen := 0%N; a_parent := Some 0%nat; a_spec := root_spec; a_state := Killed; a_zombie := false;
       a_restarting := None; a_children := []; a_watchers := []; a_stash := []; a_modes := [0%N]; a_inst := 0%N;
       a_decisions := []; a_hooks := []; a_cache := Some 1%nat; a_sq := []; a_uq := []; a_paused := false; a_cons := C0;
       a_cur := None; a_pend := [] |}.
  Definition reuse_state : state :=
    {| actors := [new_actor [] 0%N None root_spec; old_ctx; new_actor [7%N] 1%N (Some 0%nat) root_spec];
       reg := [([7%N], 2%nat)]; gens := [([7%N], 2%N)]; subs := []; exts := []; olog := []; ghost := []; err := false |}.
End CoreView.
