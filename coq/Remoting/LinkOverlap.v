(** What remains true of C14's "subsequence" clause when the connections of one sender mailbox DO overlap at the
    receiver (every connection has its own reader actor; nothing orders them: known finding
    C14-reorder-across-connections).  For EVERY interleaving of the per-connection deliveries:
      - nothing is invented, corrupted or duplicated: the received list is a permutation of a subsequence of the
        sent list (every message at most as often as it was sent);
      - the messages of each single connection keep their order.
    So the only thing an overlap can break is the order between two connections. *)
From Coq Require Import List NArith ZArith Lia Bool Permutation.
From Vivid Require Import Codec.Prim Remoting.Frame Remoting.Link Remoting.LinkProofs.
Import ListNotations.

Lemma concat_all_nil {A} (ls : list (list A)) : Forall (fun l => l = []) ls -> concat ls = [].
Proof. induction 1 as [|l ls -> _ IH]; [reflexivity|]. cbn. exact IH. Qed.

Lemma merges_perm {A} (ls : list (list A)) r : merges ls r -> Permutation r (concat ls).
Proof.
  induction 1 as [ls H|pre x l post r _ IH].
  - rewrite concat_all_nil by exact H. constructor.
  - rewrite concat_app in IH. cbn [concat] in IH. rewrite concat_app. cbn [concat app].
    apply Permutation_cons_app. exact IH.
Qed.

Lemma subseq_nil_any {A} (l : list A) : subseq [] l.
Proof. induction l; constructor; auto. Qed.

(** each connection's deliveries appear in the merged list in their own order *)
Lemma merges_keeps_each {A} (ls : list (list A)) r : merges ls r -> Forall (fun l => subseq l r) ls.
Proof.
  induction 1 as [ls H|pre x l post r _ IH].
  - induction H as [|l ls -> _ IHf]; constructor; [apply subseq_nil|exact IHf].
  - apply Forall_app in IH as [Hpre Hrest]. apply Forall_app. split.
    + eapply Forall_impl; [|exact Hpre]. intros a Ha. apply subseq_skip, Ha.
    + constructor.
      * apply subseq_cons, (Forall_inv Hrest).
      * eapply Forall_impl; [|exact (Forall_inv_tail Hrest)]. intros a Ha. apply subseq_skip, Ha.
Qed.

Theorem overlap_perm_of_subseq {M} (encode : M -> option bytes) (limit : N) (dec : bytes -> option M) :
  (forall m b, encode m = Some b -> dec b = Some m) ->
  forall (ms : list M) (script : list answers) (r : list M),
    merges (per_conn dec (fst (exec encode limit ms script init))) r ->
    (exists r', Permutation r r' /\ subseq r' ms) /\
    Forall (fun l => subseq l r) (per_conn dec (fst (exec encode limit ms script init))).
Proof.
  intros Hrt ms script r Hm. split.
  - exists (concat (per_conn dec (fst (exec encode limit ms script init)))). split.
    + apply merges_perm, Hm.
    + apply (subsequence encode limit dec Hrt).
  - apply merges_keeps_each, Hm.
Qed.

(** consequence: a message sent once is received at most once, under any overlap *)
Lemma subseq_count {A} (eqb : A -> A -> bool) (a b : list A) x :
  subseq a b -> (length (filter (eqb x) a) <= length (filter (eqb x) b))%nat.
Proof. induction 1; cbn; try destruct (eqb x x0); cbn; lia. Qed.

Theorem overlap_no_duplicate {M} (encode : M -> option bytes) (limit : N) (dec : bytes -> option M) (eqb : M -> M -> bool) :
  (forall m b, encode m = Some b -> dec b = Some m) ->
  forall (ms : list M) (script : list answers) (r : list M) (x : M),
    merges (per_conn dec (fst (exec encode limit ms script init))) r ->
    (length (filter (eqb x) r) <= length (filter (eqb x) ms))%nat.
Proof.
  intros Hrt ms script r x Hm.
  destruct (overlap_perm_of_subseq encode limit dec Hrt ms script r Hm) as [(r' & Hp & Hs) _].
  assert (E : length (filter (eqb x) r) = length (filter (eqb x) r')).
  { clear -Hp. induction Hp; cbn; auto; repeat match goal with |- context [eqb x ?y] => destruct (eqb x y) end; cbn; lia. }
  rewrite E. apply subseq_count, Hs.
Qed.
