(** Model of the TCP framing of internal/remoting as it is in /repo now (ONE bufio.Reader per
    connection; the body of a rejected oversize frame is discarded; the sender refuses to write an
    empty or oversize frame; the handshake is read with io.ReadFull).

    Sender (mailbox.go encodeEnvelopWithLength):  len body = 0 or > 4 MiB -> encode failure;
      otherwise frame = u32be(len body) ++ body.
    Receiver (tcp_connection.go onReadConn), one call per frame, re-armed by TellSelf:
      io.ReadFull(reader, 4)   EOF with 0 bytes -> return (no re-arm); other error -> kill
      len = 0                  -> echo the 4 bytes, kill ("peer closed")
      len > 4 MiB              -> warn, io.CopyN(io.Discard, reader, len) (error -> kill), re-arm
      io.ReadFull(reader, len) error -> kill
      decode fails             -> RemotingMessageDecodeFailedEvent, re-arm
      decode ok                -> HandleRemotingEnvelop, re-arm
    Handshake (handshake.go Wait): io.ReadFull of the 4-byte length, length > 4096 -> error, io.ReadFull of
    exactly that many bytes (no over-read).

    [recv] is the receiver as coded (a buffer refilled from an arbitrary list of chunks = what successive
    conn.Read calls return); [parse] is the same loop on the flat stream.  FrameProofs.v proves that
    they agree for every chunking. *)
From Coq Require Import List NArith ZArith Lia Bool.
From Vivid Require Import Codec.Prim.
Import ListNotations.
Local Open Scope N_scope.

Definition max_frame : N := 4194304.            (* 4*1024*1024 *)

Definition frame (body : bytes) : bytes := put_u32 (N.of_nat (length body)) ++ body.

(** encodeEnvelopWithLength after a successful EncodeEnvelopWithRemoting *)
Definition send_frame (body : bytes) : option bytes :=
  if (N.of_nat (length body) =? 0) || (max_frame <? N.of_nat (length body)) then None else Some (frame body).

(** what the receiver does with the stream, in order *)
Inductive rev (D : Type) : Type :=
| RMsg (d : D)             (* decoded and handed to HandleRemotingEnvelop *)
| RDecodeFail (len : N)    (* RemotingMessageDecodeFailedEvent; the connection goes on *)
| ROversize (len : N)      (* "invalid message length": header and body discarded, goes on *)
| RClose                   (* zero length: close handshake, connection actor killed *)
| RTruncHdr                (* the stream ended inside a length prefix: read failed, killed *)
| RTruncBody               (* the stream ended inside a body: read failed, killed *)
| REof                     (* the stream ended at a frame boundary (or the reader waits there) *)
| RFuel.                   (* model artefact: fuel exhausted (excluded by the theorems) *)
Arguments RMsg {D} d.
Arguments RDecodeFail {D} len.
Arguments ROversize {D} len.
Arguments RClose {D}.
Arguments RTruncHdr {D}.
Arguments RTruncBody {D}.
Arguments REof {D}.
Arguments RFuel {D}.

Section Receiver.
  Context {D : Type}.
  Variable dec : bytes -> option D.       (* serialize.DecodeEnvelopWithRemoting *)

  Definition on_body (b : bytes) : rev D :=
    match dec b with Some d => RMsg d | None => RDecodeFail (N.of_nat (length b)) end.

  (** the loop on the flat byte stream *)
  Fixpoint parse (fuel : nat) (s : bytes) : list (rev D) :=
    match fuel with
    | O => [RFuel]
    | S f =>
        match s with
        | [] => [REof]
        | _ =>
            match take_n 4 s with
            | Err _ => [RTruncHdr]
            | Ok (h, t) =>
                let n := unbe h in
                if n =? 0 then [RClose]
                else if max_frame <? n then
                  match take_N n t with
                  | Err _ => [ROversize n; RTruncBody]
                  | Ok (_, t') => ROversize n :: parse f t'
                  end
                else match take_N n t with
                     | Err _ => [RTruncBody]
                     | Ok (b, t') => on_body b :: parse f t'
                     end
            end
        end
    end.

  (** io.ReadFull through the connection's buffered reader: [buf] = bytes already read from the socket and not
      yet consumed, [chunks] = what the following conn.Read calls will return *)
  Inductive rf : Type :=
  | RFok (got : bytes) (buf : bytes) (chunks : list bytes)
  | RFeof (got : bytes).      (* the stream ended after [got] (fewer than requested) *)

  Fixpoint read_full (n : N) (buf : bytes) (chunks : list bytes) {struct chunks} : rf :=
    if n <=? N.of_nat (length buf) then RFok (firstn (N.to_nat n) buf) (skipn (N.to_nat n) buf) chunks
    else match chunks with
         | [] => RFeof buf
         | c :: cs => read_full n (buf ++ c) cs
         end.

  (** the receiver as coded *)
  Fixpoint recv (fuel : nat) (buf : bytes) (chunks : list bytes) : list (rev D) :=
    match fuel with
    | O => [RFuel]
    | S f =>
        match read_full 4 buf chunks with
        | RFeof [] => [REof]
        | RFeof _ => [RTruncHdr]
        | RFok h buf1 ch1 =>
            let n := unbe h in
            if n =? 0 then [RClose]
            else if max_frame <? n then
              match read_full n buf1 ch1 with
              | RFeof _ => [ROversize n; RTruncBody]
              | RFok _ buf2 ch2 => ROversize n :: recv f buf2 ch2
              end
            else match read_full n buf1 ch1 with
                 | RFeof _ => [RTruncBody]
                 | RFok b buf2 ch2 => on_body b :: recv f buf2 ch2
                 end
        end
    end.

  (** every round consumes at least four bytes, so this fuel always suffices (FrameProofs.parse_no_fuel) *)
  Definition fuel_for (s : bytes) : nat := S (length s).
  Definition receive (chunks : list bytes) : list (rev D) := recv (fuel_for (concat chunks)) [] chunks.
  Definition receive_stream (s : bytes) : list (rev D) := parse (fuel_for s) s.

  Fixpoint delivered (evs : list (rev D)) : list D :=
    match evs with
    | [] => []
    | RMsg d :: r => d :: delivered r
    | _ :: r => delivered r
    end.
End Receiver.

(** ---- handshake ---- *)
Definition hs_max : N := 4096.
Definition handshake (addr : bytes) : bytes := put_lp4 addr.

(** a whole accepted connection: Handshake.Wait reads exactly the length-prefixed address (through the same
    arbitrary reads), everything after it goes to the frame reader *)
Inductive conn_res (D : Type) : Type :=
| CNoHandshake                       (* the stream ended inside the handshake, or the address is too long *)
| CConn (peer : bytes) (evs : list (rev D)).
Arguments CNoHandshake {D}.
Arguments CConn {D} peer evs.

Definition conn_receive {D} (dec : bytes -> option D) (chunks : list bytes) : conn_res D :=
  match read_full 4 [] chunks with
  | RFeof _ => CNoHandshake
  | RFok h buf1 ch1 =>
      let n := unbe h in
      if hs_max <? n then CNoHandshake
      else match read_full n buf1 ch1 with
           | RFeof _ => CNoHandshake
           | RFok a buf2 ch2 => CConn a (recv dec (fuel_for (buf2 ++ concat ch2)) buf2 ch2)
           end
  end.

(** the same on the flat stream *)
Definition conn_receive_stream {D} (dec : bytes -> option D) (s : bytes) : conn_res D :=
  match rd_u32 s with
  | Err _ => CNoHandshake
  | Ok (n, t) =>
      if hs_max <? n then CNoHandshake
      else match take_N n t with
           | Err _ => CNoHandshake
           | Ok (a, t') => CConn a (receive_stream dec t')
           end
  end.

(** ---- envelope layout (serialize/remoting_envelop.go) ----
    [payload lp4][message name lp4][system 1][sender addr lp4][sender path lp4][receiver addr lp4][receiver path lp4] *)
Record env : Type := {
  e_payload : bytes; e_name : bytes; e_system : bool;
  e_saddr : bytes; e_spath : bytes; e_raddr : bytes; e_rpath : bytes }.

Definition env_encode (e : env) : bytes :=
  put_lp4 (e_payload e) ++ put_lp4 (e_name e) ++ put_bool (e_system e) ++
  put_lp4 (e_saddr e) ++ put_lp4 (e_spath e) ++ put_lp4 (e_raddr e) ++ put_lp4 (e_rpath e).

(** ReadInto(&messageData, &messageName, &system, &senderAddr, &senderPath, &receiverAddr, &receiverPath);
    trailing bytes are ignored *)
Definition env_parse (b : bytes) : res env :=
  let* (p, b1) := rd_lp4 b in
  let* (n, b2) := rd_lp4 b1 in
  let* (s, b3) := rd_bool b2 in
  let* (sa, b4) := rd_lp4 b3 in
  let* (sp, b5) := rd_lp4 b4 in
  let* (ra, b6) := rd_lp4 b5 in
  let* (rp, _) := rd_lp4 b6 in
  Ok {| e_payload := p; e_name := n; e_system := s; e_saddr := sa; e_spath := sp; e_raddr := ra; e_rpath := rp |}.

Definition env_len32 (e : env) : Prop :=
  N.of_nat (length (e_payload e)) < 4294967296 /\ N.of_nat (length (e_name e)) < 4294967296 /\
  N.of_nat (length (e_saddr e)) < 4294967296 /\ N.of_nat (length (e_spath e)) < 4294967296 /\
  N.of_nat (length (e_raddr e)) < 4294967296 /\ N.of_nat (length (e_rpath e)) < 4294967296.

(** ---- references (internal/actor/ref.go NewRef, system.go HandleRemotingEnvelop) ---- *)
Section Refs.
  Variable norm_addr norm_path : bytes -> option bytes.     (* utils.NormalizeAddress / NormalizePath *)
  Definition new_ref (a p : bytes) : option (bytes * bytes) :=
    match norm_addr a, norm_path p with
    | Some a', Some p' => Some (a', p')
    | _, _ => None
    end.
  (** what HandleRemotingEnvelop rebuilds from a decoded envelope: (sender ref, receiver ref) *)
  Definition handle_refs (e : env) : option ((bytes * bytes) * (bytes * bytes)) :=
    match new_ref (e_saddr e) (e_spath e), new_ref (e_raddr e) (e_rpath e) with
    | Some s, Some r => Some (s, r)
    | _, _ => None
    end.
End Refs.
