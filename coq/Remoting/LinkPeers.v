(** Several remote mailboxes of ONE sending system (internal/remoting/mailbox_central.go: one [Mailbox] per remote
    address, mailbox.go newMailbox: each with its own connection, its own connectionLock and ITS OWN
    utils.ExponentialBackoff, i.e. its own attempt counter).

    Enqueue calls to different mailboxes run concurrently; the unit of interleaving is one iteration of
    backoff.Try's loop ([iter]: the closure, the limit check, then either the return of the call or the sleep).
    [Link.try_loop] is the iteration of [iter] over the script (LinkPeersProofs.try_loop_iters).

    [pair_run]: two mailboxes with separate states under an arbitrary schedule of iterations.
    [shared_run]: the hypothetical variant in which the two mailboxes share ONE attempt counter (what a single
    ExponentialBackoff handed to every mailbox would be): after every iteration the counter of the other mailbox is
    overwritten by the acting one's.  It is NOT the code; it is here to show what the independence theorem excludes. *)
From Coq Require Import List NArith Bool.
From Vivid Require Import Codec.Prim Remoting.Frame Remoting.Link.
Import ListNotations.
Local Open Scope N_scope.

Inductive peer : Type := PR | PH.

Section Peers.
  Context {M : Type}.
  Variable encode : M -> option bytes.
  Variable limit : N.

  (** one iteration of the loop of backoff.Try inside Enqueue; true = the Enqueue call returned *)
  Definition iter (m : M) (a : answers) (s : @st M) : @st M * bool :=
    let (s1, o) := attempt_once encode m a s in
    match o with
    | OSuccess => (finish None s1, true)
    | OAbort => (finish (Some m) s1, true)
    | ORetry => if limit <=? attempt s1 then (finish (Some m) s1, true) else (sleep s1, false)
    end.

  (** the iterations of one mailbox, in order (each with the message whose Enqueue it belongs to) *)
  Fixpoint run_iters (evs : list (M * answers)) (s : @st M) : @st M :=
    match evs with
    | [] => s
    | (m, a) :: r => run_iters r (fst (iter m a s))
    end.

  (** a schedule: whose iteration comes next *)
  Definition pair_step (e : peer * (M * answers)) (p : @st M * @st M) : @st M * @st M :=
    match e with
    | (PR, (m, a)) => (fst (iter m a (fst p)), snd p)
    | (PH, (m, a)) => (fst p, fst (iter m a (snd p)))
    end.

  Fixpoint pair_run (evs : list (peer * (M * answers))) (p : @st M * @st M) : @st M * @st M :=
    match evs with
    | [] => p
    | e :: r => pair_run r (pair_step e p)
    end.

  Fixpoint proj (w : peer) (evs : list (peer * (M * answers))) : list (M * answers) :=
    match evs with
    | [] => []
    | (PR, x) :: r => match w with PR => x :: proj w r | PH => proj w r end
    | (PH, x) :: r => match w with PH => x :: proj w r | PR => proj w r end
    end.

  (** ---- the variant with one shared counter ---- *)
  Definition set_attempt (n : N) (s : @st M) : @st M :=
    {| cur := cur s; old := old s; attempt := n; dead := dead s; trace := trace s |}.

  Definition shared_step (e : peer * (M * answers)) (p : @st M * @st M) : @st M * @st M :=
    match e with
    | (PR, (m, a)) => let s := fst (iter m a (fst p)) in (s, set_attempt (attempt s) (snd p))
    | (PH, (m, a)) => let s := fst (iter m a (snd p)) in (set_attempt (attempt s) (fst p), s)
    end.

  Fixpoint shared_run (evs : list (peer * (M * answers))) (p : @st M * @st M) : @st M * @st M :=
    match evs with
    | [] => p
    | e :: r => shared_run r (shared_step e p)
    end.
End Peers.

(** [n] rounds of: one iteration of R's Enqueue of [mr] (answers [ar]), then one iteration of H's Enqueue of [mh] *)
Fixpoint alternate {M : Type} (n : nat) (mr : M) (ar : answers) (mh : M) (ah : answers) : list (peer * (M * answers)) :=
  match n with
  | O => []
  | S k => (PR, (mr, ar)) :: (PH, (mh, ah)) :: alternate k mr ar mh ah
  end.
