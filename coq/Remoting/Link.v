(** Model of the sending side of remoting (internal/remoting/mailbox.go Enqueue, utils/backoff.go Try) and of
    the link between one sender mailbox and the remote system.

    One [Mailbox] per remote address; [Enqueue] holds [connectionLock] for its whole duration, so calls are
    processed one after the other: the machine state between two calls is [st], one call is [try_loop].
    One step of the machine = one iteration of backoff.Try's loop ([attempt_once] = the closure passed to Try,
    followed by the limit check and the sleep).  Everything the environment decides during an iteration is
    read from one [answers] record (the script is universally quantified in the theorems):

      a_stopped   m.ctx.Err() != nil at the top of the closure            -> abort, error
      a_connect   outcome of getOrCreateConnection WHEN no connection is cached: dial refused / handshake
                  failed / context stopped after the handshake / registration with the server actor failed /
                  a new connection that will carry [cap] more bytes before the link cuts it (None = never)
      a_closed    m.connection.Closed() (MailboxCentral.Close ran)        -> drop the connection, error
      a_werr      whether a Write that cannot deliver all its bytes reports the error (M5) or "succeeds"
                  into the kernel buffer (the bytes after the cut are lost silently)

    M5 as modelled in [write]: a Write delivers all its bytes, or a STRICT prefix of them after which nothing
    more is ever delivered on that connection; only the second case can return an error.  A new connection
    starts with an empty wire (= at a frame boundary; its handshake is Frame.v's business). *)
From Coq Require Import List NArith ZArith Lia Bool.
From Vivid Require Import Codec.Prim Remoting.Frame.
Import ListNotations.
Local Open Scope N_scope.

Inductive connect_result : Type :=
| CRefused | CHandshakeFail | CStoppedAfter | CRegisterFail
| COk (cap : option N).

Record answers : Type := { a_stopped : bool; a_connect : connect_result; a_closed : bool; a_werr : bool }.

(** observable actions of one Enqueue call; ALL of them run on the goroutine that called Tell *)
Inductive label : Type :=
| LDial                         (* net.Dial *)
| LConnFailed (attempt : N)     (* RemotingConnectionFailedEvent{RetryCount: backoff.GetAttempt()} *)
| LSendFailed                   (* RemotingMessageSendFailedEvent (encode failure or write error) *)
| LSent (n : N)                 (* RemotingMessageSentEvent{MessageSize} *)
| LSleep (attempt : N)          (* time.Sleep(backoff.Next()) with connectionLock held *)
| LDead.                        (* HandleFailedRemotingEnvelop *)

Record conn : Type := { c_cap : option N; c_wire : bytes }.

Inductive outcome : Type := OSuccess | OAbort | ORetry.

Section Link.
  Context {M : Type}.
  Variable encode : M -> option bytes.       (* serialize.EncodeEnvelopWithRemoting *)
  Variable limit : N.                        (* sugar.Max(options.ReconnectLimit, 0) *)

  Record st : Type := {
    cur : option conn;          (* m.connection *)
    old : list bytes;           (* what the peer received on the connections dropped so far, oldest first *)
    attempt : N;                (* backoff.currentAttempt *)
    dead : list M;              (* HandleFailedRemotingEnvelop calls, in order *)
    trace : list label;
  }.

  Definition init : st := {| cur := None; old := []; attempt := 0; dead := []; trace := [] |}.

  (** encodeEnvelopWithLength *)
  Definition wire_of (m : M) : option bytes :=
    match encode m with Some b => send_frame b | None => None end.

  (** conn.Write on a link that cuts the connection after [cap] more bytes *)
  Definition write (c : conn) (data : bytes) : conn * bool :=
    match c_cap c with
    | None => ({| c_cap := None; c_wire := c_wire c ++ data |}, true)
    | Some k =>
        if N.of_nat (length data) <=? k
        then ({| c_cap := Some (k - N.of_nat (length data)); c_wire := c_wire c ++ data |}, true)
        else ({| c_cap := Some 0; c_wire := c_wire c ++ firstn (N.to_nat k) data |}, false)
    end.

  Definition log (l : list label) (s : st) : st :=
    {| cur := cur s; old := old s; attempt := attempt s; dead := dead s; trace := trace s ++ l |}.
  Definition set_cur (c : option conn) (s : st) : st :=
    {| cur := c; old := old s; attempt := attempt s; dead := dead s; trace := trace s |}.
  (** m.connection = nil: the connection is never written again *)
  Definition drop (c : conn) (s : st) : st :=
    {| cur := None; old := old s ++ [c_wire c]; attempt := attempt s; dead := dead s; trace := trace s |}.

  (** the closure passed to backoff.Try *)
  Definition attempt_once (m : M) (a : answers) (s : st) : st * outcome :=
    if a_stopped a then (s, OAbort) else
    let got : st * option conn :=
      match cur s with
      | Some c => (s, Some c)
      | None =>
          let s1 := log [LDial] s in
          match a_connect a with
          | CRefused | CRegisterFail => (log [LConnFailed (attempt s)] s1, None)
          | CHandshakeFail | CStoppedAfter => (s1, None)
          | COk cap => (s1, Some {| c_cap := cap; c_wire := [] |})
          end
      end in
    match got with
    | (s1, None) => (s1, ORetry)
    | (s1, Some c) =>
        match wire_of m with
        | None => (log [LSendFailed] (set_cur (Some c) s1), OAbort)
        | Some data =>
            if a_closed a then (drop c s1, ORetry)
            else
              let (c', complete) := write c data in
              if complete || negb (a_werr a)
              then (log [LSent (N.of_nat (length data))] (set_cur (Some c') s1), OSuccess)
              else (log [LSendFailed] (drop c' s1), ORetry)
        end
    end.

  Definition sleep (s : st) : st :=
    {| cur := cur s; old := old s; attempt := attempt s + 1; dead := dead s; trace := trace s ++ [LSleep (attempt s)] |}.
  (** defer eb.Reset(); then, on error, HandleFailedRemotingEnvelop *)
  Definition finish (failed : option M) (s : st) : st :=
    match failed with
    | None => {| cur := cur s; old := old s; attempt := 0; dead := dead s; trace := trace s |}
    | Some m => {| cur := cur s; old := old s; attempt := 0; dead := dead s ++ [m]; trace := trace s ++ [LDead] |}
    end.

  (** one Enqueue call.  Result: state, unused script, whether the call returned (false = script exhausted) *)
  Fixpoint try_loop (m : M) (script : list answers) (s : st) : st * list answers * bool :=
    match script with
    | [] => (s, [], false)
    | a :: rest =>
        let (s1, o) := attempt_once m a s in
        match o with
        | OSuccess => (finish None s1, rest, true)
        | OAbort => (finish (Some m) s1, rest, true)
        | ORetry =>
            if limit <=? attempt s1 then (finish (Some m) s1, rest, true)
            else try_loop m rest (sleep s1)
        end
    end.

  (** a sequence of Enqueue calls in the order in which they got the lock *)
  Fixpoint exec (ms : list M) (script : list answers) (s : st) : st * bool :=
    match ms with
    | [] => (s, true)
    | m :: ms' =>
        let '(s1, rest, ok) := try_loop m script s in
        if ok then exec ms' rest s1 else (s1, false)
    end.

  (** what the peer received, one byte stream per connection, in the order the connections were made *)
  Definition wires (s : st) : list bytes :=
    old s ++ match cur s with Some c => [c_wire c] | None => [] end.

  Section Receiver.
    Context {D : Type}.
    Variable dec : bytes -> option D.
    (** what each connection's reader actor hands to the remote actor *)
    Definition per_conn (s : st) : list (list D) := map (fun w => delivered (receive_stream dec w)) (wires s).
    (** ... when the connections of this mailbox do not overlap at the receiver *)
    Definition received (s : st) : list D := concat (per_conn s).
  End Receiver.
End Link.

(** order-preserving embedding: every element of the first list is matched by a distinct position of the
    second, in order (so nothing is duplicated, nothing reordered, nothing invented) *)
Inductive subseq {A : Type} : list A -> list A -> Prop :=
| subseq_nil : subseq [] []
| subseq_skip x l1 l2 : subseq l1 l2 -> subseq l1 (x :: l2)
| subseq_cons x l1 l2 : subseq l1 l2 -> subseq (x :: l1) (x :: l2).

(** arbitrary interleaving of the connections' reader actors *)
Inductive merges {A : Type} : list (list A) -> list A -> Prop :=
| merges_nil ls : Forall (fun l => l = []) ls -> merges ls []
| merges_cons pre x l post r : merges (pre ++ l :: post) r -> merges (pre ++ (x :: l) :: post) (x :: r).

(** nominal back-off of mailbox.go: NewExponentialBackoffWithDefault(100ms, 3s), factor 2 (jitter +-25 %) *)
Definition backoff_ms (k : N) : N := N.min (100 * 2 ^ k) 3000.
Fixpoint sleeps_ms (tr : list label) : N :=
  match tr with
  | [] => 0
  | LSleep k :: r => backoff_ms k + sleeps_ms r
  | _ :: r => sleeps_ms r
  end.
Fixpoint count_sleeps (tr : list label) : N :=
  match tr with
  | [] => 0
  | LSleep _ :: r => 1 + count_sleeps r
  | _ :: r => count_sleeps r
  end.
