(** Frames that DECODE but cannot be handed to anybody (tcp_connection.go onReadConn, the last branch):

        err = c.envelopHandler.HandleRemotingEnvelop(system, senderAddr, senderPath, receiverAddr, receiverPath, msg)
        ctx.TellSelf(c.conn)                     // re-arm the reader, whatever err is
        if err != nil { log "failed to handle remoting message" }
        return false, nil

    System.HandleRemotingEnvelop fails when actor.NewRef rejects the sender strings (an absent sender is written as two
    empty strings; a bad port; a bare IP) or the receiver strings (a path without '/').  Such a frame is "received"
    (RemotingMessageReceivedEvent) and reaches no mailbox; the reader loop goes on exactly as after any other frame.
    In Frame.v that frame is an [RMsg d] like every decoded frame; [routable d] says whether HandleRemotingEnvelop
    returned nil; what reaches local mailboxes is [handed]. *)
From Coq Require Import List NArith ZArith Lia Bool.
From Vivid Require Import Codec.Prim Remoting.Frame Remoting.FrameProofs.
Import ListNotations.
Local Open Scope N_scope.

Section Route.
  Context {D : Type}.
  Variable dec : bytes -> option D.
  Variable routable : D -> bool.

  Definition handed (evs : list (rev D)) : list D := filter routable (delivered evs).

  Lemma decodable_app a b : decodable dec (a ++ b) = decodable dec a ++ decodable dec b.
  Proof. induction a as [|x a IH]; [reflexivity|]. cbn [app decodable]. destruct (dec x); cbn; now rewrite IH. Qed.
  Lemma accepted_app a b : accepted (a ++ b) = accepted a ++ accepted b.
  Proof.
    induction a as [|x a IH]; [reflexivity|]. cbn [app accepted].
    destruct (max_frame <? N.of_nat (length x)); cbn; now rewrite IH.
  Qed.

  (** any stream of well-formed frames, any chunking: every frame gets exactly one reaction, the stream stays
      aligned, and local mailboxes get exactly the bodies of accepted size that decode AND can be routed, in order *)
  Theorem unroutable_continues bodies chunks :
    Forall wellformed bodies -> concat chunks = concat (map frame bodies) ->
    receive dec chunks = map (on_frame dec) bodies ++ [REof] /\
    handed (receive dec chunks) = filter routable (decodable dec (accepted bodies)).
  Proof.
    intros HF E. destruct (receive_mixed dec bodies chunks HF E) as [A B]. split; [exact A|].
    unfold handed. now rewrite B.
  Qed.

  (** m1 .. | BAD | m3 ..: a frame that decodes to an unroutable envelope changes nothing for the frames around it:
      the mailboxes get what they would have got had the frame not been sent *)
  Theorem unroutable_frame_is_skipped pre bad post chunks d :
    Forall wellformed (pre ++ bad :: post) ->
    dec bad = Some d -> routable d = false ->
    concat chunks = concat (map frame (pre ++ bad :: post)) ->
    handed (receive dec chunks) =
    filter routable (decodable dec (accepted pre)) ++ filter routable (decodable dec (accepted post)).
  Proof.
    intros HF Hd Hr E. destruct (unroutable_continues _ _ HF E) as [_ ->].
    rewrite accepted_app, decodable_app, filter_app. f_equal.
    cbn [accepted]. destruct (max_frame <? N.of_nat (length bad)); [reflexivity|].
    cbn [decodable]. rewrite Hd. cbn [filter]. now rewrite Hr.
  Qed.
End Route.
