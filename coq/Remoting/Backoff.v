(** Exact model of internal/utils/backoff.go (ExponentialBackoff: Next / Reset / GetAttempt / Try) for the
    configurations vivid constructs: Factor = 2.0 (NewExponentialBackoffWithDefault in remoting/mailbox.go:
    100 ms .. 3 s, jitter; NewExponentialBackoff(100 ms, 10 s, 2, true) in remoting/server_actor.go).

    Next():
        delay := float64(InitialDelay) * math.Pow(Factor, float64(currentAttempt))
        if delay > float64(MaxDelay) { delay = float64(MaxDelay) }
        if Jitter { jitterAmount := delay * 0.25
                    jitter := (rand.Float64()*2 - 1) * jitterAmount
                    delay += jitter;  if delay < 0 { delay = 0 } }
        currentAttempt++
        return time.Duration(delay)

    FLOATING POINT.  Every float64 value that occurs is a dyadic rational, so it is represented here by an
    integer at a fixed binary scale, and every IEEE-754 operation of the Go code is "the exact result, rounded to
    nearest-even at 53 significant bits": [rn53].  (The exponent range plays no role: the magnitudes lie between
    2^-63 and 2^63 * 2^53, far from under- and overflow - except math.Pow for attempt >= 1024, which is +Inf and
    then capped, the same result as the unbounded integer 2^k used here.)
      - float64(InitialDelay), float64(MaxDelay): exact below 2^53 ns (104 days)           [rn53_small]
      - math.Pow(2.0, k) is the exact power of two (Go computes it by Frexp / repeated squaring / Ldexp of the
        mantissa 0.5, never rounding); multiplying a float by a power of two only changes the exponent, so the
        un-jittered delay is EXACTLY min(InitialDelay * 2^k, MaxDelay)                     [bo_base_exact]
        (this is what "Factor 2 is exact in float64" means; for Factor 1.5 it would be false)
      - delay * 0.25: exact (exponent - 2)
      - rand.Float64() = float64(Int63()) / (1<<63): one rounding of the 63-bit integer r   [u = rn53 r, scale 2^-63]
      - x*2 exact; x*2 - 1 rounds                                                        [t = rn53 (2u - 2^63), scale 2^-63]
      - (..) * jitterAmount rounds                                                       [j = rn53 (t * d), scale 2^-65]
      - delay + jitter rounds                                                            [s = rn53 (d * 2^65 + j), scale 2^-65]
      - time.Duration(delay) truncates toward zero                                       [s / 2^65]
    No fused multiply-add is assumed (amd64, GOAMD64=v1: the Go compiler does not fuse there); the differential
    run of the real type against this model checks it bit for bit on the machine the check runs on.

    Durations are nanoseconds in Z; the attempt counter is an N (a Go int that only counts up from 0). *)
From Coq Require Import List ZArith NArith Lia Bool.
Import ListNotations.
Local Open Scope Z_scope.

(** round to nearest, ties to even, at 53 significant bits, of a non-negative integer *)
Definition rn53_pos (x : Z) : Z :=
  let s := Z.log2 x + 1 - 53 in
  if s <=? 0 then x
  else
    let p := 2 ^ s in
    let q := x / p in
    let r := x mod p in
    let h := 2 ^ (s - 1) in
    if r <? h then q * p
    else if h <? r then (q + 1) * p
    else if Z.even q then q * p else (q + 1) * p.

Definition rn53 (x : Z) : Z := if x <? 0 then - rn53_pos (- x) else rn53_pos x.

Record bo_cfg : Type := { bo_init : Z; bo_max : Z; bo_jitter : bool }.

(** the two objects vivid constructs *)
Definition mailbox_cfg : bo_cfg := {| bo_init := 100000000; bo_max := 3000000000; bo_jitter := true |}.
Definition server_cfg : bo_cfg := {| bo_init := 100000000; bo_max := 10000000000; bo_jitter := true |}.

(** delays below 2^52 ns = 52 days; every bound below is stated for these *)
Definition cfg_ok (c : bo_cfg) : Prop := 0 < bo_init c < 2 ^ 52 /\ 0 < bo_max c < 2 ^ 52.

(** the un-jittered delay as the code computes it (three float operations) ... *)
Definition bo_base_f (c : bo_cfg) (k : N) : Z :=
  let d := rn53 (rn53 (bo_init c) * 2 ^ Z.of_N k) in
  let m := rn53 (bo_max c) in
  if m <? d then m else d.
(** ... and what it is *)
Definition bo_base (c : bo_cfg) (k : N) : Z := Z.min (bo_init c * 2 ^ Z.of_N k) (bo_max c).

Definition two63 : Z := 2 ^ 63.
Definition two65 : Z := 2 ^ 65.

(** the jitter branch for base delay [d] and the 63-bit integer [r] drawn by rand.Float64() *)
Definition bo_jit (d r : Z) : Z :=
  let u := rn53 r in
  let t := rn53 (2 * u - two63) in
  let j := rn53 (t * d) in
  let s := rn53 (d * two65 + j) in
  if s <? 0 then 0 else s / two65.

(** rand.Float64 redraws when float64(r)/2^63 rounds up to 1.0 (r within 2^9 of 2^63) *)
Definition draw_ok (r : Z) : Prop := 0 <= r < two63.
Definition draw_kept (r : Z) : bool := rn53 r <? two63.

(** Next() with [k] = currentAttempt; the caller increments the counter *)
Definition bo_next (c : bo_cfg) (k : N) (r : Z) : Z :=
  let d := bo_base_f c k in
  if bo_jitter c then bo_jit d r else d.

(** the documented interval: +-25 % around the capped exponential *)
Definition bo_lo (c : bo_cfg) (k : N) : Z := if bo_jitter c then (3 * bo_base c k) / 4 else bo_base c k.
Definition bo_hi (c : bo_cfg) (k : N) : Z := if bo_jitter c then - ((- (5 * bo_base c k)) / 4) else bo_base c k.

(** ---- the object: Next / Reset / GetAttempt ---- *)
Inductive bo_op : Type :=
| BNext (r : Z)        (* Next(); r = the integer the random source hands to rand.Float64 (unused without jitter) *)
| BReset
| BGet.

Inductive bo_res : Type :=
| RDelay (ns : Z)
| RUnit
| RAttempt (k : N).

Definition bo_step (c : bo_cfg) (att : N) (op : bo_op) : N * bo_res :=
  match op with
  | BNext r => ((att + 1)%N, RDelay (bo_next c att r))
  | BReset => (0%N, RUnit)
  | BGet => (att, RAttempt att)
  end.

Fixpoint bo_run (c : bo_cfg) (att : N) (ops : list bo_op) : N * list bo_res :=
  match ops with
  | [] => (att, [])
  | op :: rest =>
      let (a1, r) := bo_step c att op in
      let (a2, rs) := bo_run c a1 rest in (a2, r :: rs)
  end.

(** ---- Try(limit, fn) ----
        defer eb.Reset()
        for { abort, err = fn()
              if abort || err == nil { return abort, err }
              if limit >= 0 && eb.currentAttempt >= limit { return abort, fmt.Errorf(...) }
              time.Sleep(eb.Next()) }
    The environment of one iteration: what fn returned, and the random integer of the Next() that follows (if any). *)
Record fn_out : Type := { fo_abort : bool; fo_err : bool; fo_draw : Z }.

Record try_res : Type := {
  tr_returned : bool;        (* false: the script of outcomes ended while Try was still looping *)
  tr_abort : bool;
  tr_err : bool;             (* err != nil *)
  tr_seen : list N;          (* GetAttempt() as seen by each call of fn, in order *)
  tr_sleeps : list Z;        (* the arguments of time.Sleep, in order *)
  tr_rest : list fn_out;     (* outcomes not consumed *)
  tr_after : N;              (* currentAttempt when Try has returned (after the deferred Reset) *)
}.

Definition tr_calls (t : try_res) : N := N.of_nat (length (tr_seen t)).

Fixpoint bo_try (c : bo_cfg) (limit : Z) (outs : list fn_out) (att : N) : try_res :=
  match outs with
  | [] => {| tr_returned := false; tr_abort := false; tr_err := false; tr_seen := []; tr_sleeps := []; tr_rest := [];
             tr_after := att |}
  | o :: rest =>
      if fo_abort o || negb (fo_err o) then
        {| tr_returned := true; tr_abort := fo_abort o; tr_err := fo_err o; tr_seen := [att]; tr_sleeps := [];
           tr_rest := rest; tr_after := 0%N |}
      else if (0 <=? limit) && (limit <=? Z.of_N att) then
        {| tr_returned := true; tr_abort := false; tr_err := true; tr_seen := [att]; tr_sleeps := [];
           tr_rest := rest; tr_after := 0%N |}
      else
        let t := bo_try c limit rest (att + 1)%N in
        {| tr_returned := tr_returned t; tr_abort := tr_abort t; tr_err := tr_err t;
           tr_seen := att :: tr_seen t; tr_sleeps := bo_next c att (fo_draw o) :: tr_sleeps t;
           tr_rest := tr_rest t; tr_after := tr_after t |}
  end.

(** fn fails (err, no abort) *)
Definition fails (o : fn_out) : Prop := fo_abort o = false /\ fo_err o = true.

(** sums used by the bounds *)
Fixpoint sum_z (l : list Z) : Z := match l with [] => 0 | x :: r => x + sum_z r end.
Fixpoint sum_lo (c : bo_cfg) (from : N) (n : nat) : Z :=
  match n with O => 0 | S n' => bo_lo c from + sum_lo c (from + 1)%N n' end.
Fixpoint sum_hi (c : bo_cfg) (from : N) (n : nat) : Z :=
  match n with O => 0 | S n' => bo_hi c from + sum_hi c (from + 1)%N n' end.
