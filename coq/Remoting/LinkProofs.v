(** Lemmas about Remoting/Link.v: what the peer receives over any history of cuts, refusals and retries is a
    subsequence of what was sent; dead letters; recovery; the caller sleeps. *)
From Coq Require Import List NArith ZArith Lia Bool.
From Coq Require Import ZifyN ZifyNat ZifyBool.
From Vivid Require Import Codec.Prim Codec.PrimProofs Remoting.Frame Remoting.FrameProofs Remoting.Link.
Import ListNotations.
Local Open Scope N_scope.

(** ---- subseq ---- *)
Lemma subseq_nil_l {A} (l : list A) : subseq [] l.
Proof. induction l; constructor; auto. Qed.
Lemma subseq_refl {A} (l : list A) : subseq l l.
Proof. induction l; [apply subseq_nil|apply subseq_cons; auto]. Qed.
Lemma subseq_app {A} (a b c d : list A) : subseq a b -> subseq c d -> subseq (a ++ c) (b ++ d).
Proof. induction 1; cbn; intros Hcd; auto; [apply subseq_skip|apply subseq_cons]; auto. Qed.
Lemma subseq_snoc_skip {A} (a b : list A) x : subseq a b -> subseq a (b ++ [x]).
Proof. intros H. rewrite <- (app_nil_r a). apply subseq_app; [exact H|]. apply subseq_skip, subseq_nil. Qed.
Lemma subseq_snoc {A} (a b : list A) x : subseq a b -> subseq (a ++ [x]) (b ++ [x]).
Proof. intros H. apply subseq_app; [exact H|apply subseq_refl]. Qed.
Lemma subseq_app_r {A} (a b c : list A) : subseq a b -> subseq a (b ++ c).
Proof. intros H. rewrite <- (app_nil_r a). apply subseq_app; [exact H|apply subseq_nil_l]. Qed.
Lemma subseq_length {A} (a b : list A) : subseq a b -> (length a <= length b)%nat.
Proof. induction 1; cbn; lia. Qed.
Lemma subseq_In {A} (a b : list A) x : subseq a b -> In x a -> In x b.
Proof. induction 1; cbn; intuition. Qed.

Section P.
  Context {M : Type}.
  Variable encode : M -> option bytes.
  Variable limit : N.
  Variable dec : bytes -> option M.
  (** the codec round trip (proved for the envelope layout in FrameProofs.env_roundtrip; for the message payload
      it is C12's theorem / the user codec's contract M9) *)
  Hypothesis codec_roundtrip : forall m b, encode m = Some b -> dec b = Some m.

  Notation st := (@st M).
  Notation attempt_once := (attempt_once encode).
  Notation try_loop := (try_loop encode limit).
  Notation exec := (exec encode limit).
  Notation wire_of := (wire_of encode).

  (** ghost structure of a wire: complete frames of messages, then a strict prefix of one more frame *)
  Definition good (p : M * bytes) : Prop := encode (fst p) = Some (snd p) /\ legal (snd p).
  Definition frames (f : list (M * bytes)) : bytes := concat (map frame (map snd f)).
  Definition strict_prefix (t : bytes) : Prop :=
    t = [] \/ exists b k, legal b /\ (k < length (frame b))%nat /\ t = firstn k (frame b).
  Definition wire_ok (f : list (M * bytes)) (w : bytes) : Prop :=
    Forall good f /\ exists t, w = frames f ++ t /\ strict_prefix t.
  Definition cur_ok (f : list (M * bytes)) (c : conn) : Prop :=
    Forall good f /\ exists t, c_wire c = frames f ++ t /\ strict_prefix t /\ (t <> [] -> c_cap c = Some 0).

  Definition Inv (done : list M) (s : st) : Prop :=
    exists fs fc,
      Forall2 wire_ok fs (old s) /\
      match cur s with Some c => cur_ok fc c | None => fc = [] end /\
      subseq (map fst (concat fs ++ fc)) done.

  Lemma wire_of_good m data : wire_of m = Some data -> exists b, good (m, b) /\ data = frame b.
  Proof.
    clear codec_roundtrip dec.
    unfold wire_of. destruct (encode m) as [b|] eqn:E; [|discriminate]. intros H.
    apply send_frame_legal in H as [L ->]. exists b. split; [split; assumption|reflexivity].
  Qed.

  Lemma frames_snoc f p : frames (f ++ [p]) = frames f ++ frame (snd p).
  Proof. unfold frames. rewrite !map_app, concat_app. cbn. now rewrite app_nil_r. Qed.

  Lemma frame_length b : length (frame b) = (4 + length b)%nat.
  Proof. unfold frame, put_u32. now rewrite app_length, be_length. Qed.

  (** conn.Write keeps the wire structured; a complete write appends exactly one frame *)
  Lemma write_ok f c m b :
    cur_ok f c -> good (m, b) ->
    let (c', complete) := write c (frame b) in
    if complete then cur_ok (f ++ [(m, b)]) c' /\ c_wire c' = c_wire c ++ frame b /\ c_wire c = frames f
    else cur_ok f c' /\ wire_ok f (c_wire c').
  Proof.
    clear codec_roundtrip dec.
    intros (Hg & t & Hw & Hp & Hcap) Hb. unfold write.
    assert (L : (0 < length (frame b))%nat) by (rewrite frame_length; lia).
    destruct (c_cap c) as [k|] eqn:Ek.
    - destruct (N.of_nat (length (frame b)) <=? k) eqn:Ef.
      + assert (t = []) as ->. { destruct t; [reflexivity|]. assert (Some k = Some 0) as [= ->] by (apply Hcap; discriminate). lia. }
        rewrite app_nil_r in Hw. cbn [c_wire]. repeat split; auto.
        * apply Forall_app; split; auto.
        * exists []. rewrite frames_snoc, Hw, app_nil_r. cbn [snd]. repeat split; [left; reflexivity|congruence].
      + cbn [c_wire c_cap]. destruct t as [|x t'].
        * assert (Hk : (N.to_nat k < length (frame b))%nat) by lia.
          assert (SP : strict_prefix (firstn (N.to_nat k) (frame b))).
          { right. exists b, (N.to_nat k). split; [apply Hb|split; [exact Hk|reflexivity]]. }
          rewrite Hw, app_nil_r. split; [split; [exact Hg|]|split; [exact Hg|]];
            exists (firstn (N.to_nat k) (frame b)); repeat split; auto.
        * assert (Some k = Some 0) as [= ->] by (apply Hcap; discriminate).
          cbn [N.to_nat firstn]. rewrite app_nil_r, Hw.
          split; [split; [exact Hg|]|split; [exact Hg|]]; exists (x :: t'); repeat split; auto.
    - assert (t = []) as ->. { destruct t; [reflexivity|]. assert (@None N = Some 0) by (apply Hcap; discriminate). discriminate. }
      rewrite app_nil_r in Hw. cbn [c_wire]. repeat split; auto.
      + apply Forall_app; split; auto.
      + exists []. rewrite frames_snoc, Hw, app_nil_r. cbn [snd]. repeat split; [left; reflexivity|congruence].
  Qed.

  Lemma cur_ok_wire_ok f c : cur_ok f c -> wire_ok f (c_wire c).
  Proof.
    clear codec_roundtrip dec. intros (Hg & t & Hw & Hp & _). split; [exact Hg|]. exists t. auto. Qed.

  Lemma fresh_ok cap : cur_ok [] {| c_cap := cap; c_wire := [] |}.
  Proof.
    clear codec_roundtrip dec. split; [constructor|]. exists []. repeat split; [left; reflexivity|congruence]. Qed.

  Lemma Inv_log done l s : Inv done (log l s) <-> Inv done s.
  Proof. reflexivity. Qed.

  (** one iteration: only a successful write adds a complete frame, and it adds it at the end *)
  Lemma attempt_once_inv done m a s :
    Inv done s ->
    let (s1, o) := attempt_once m a s in
    match o with
    | OSuccess => Inv (done ++ [m]) s1
    | _ => Inv done s1
    end.
  Proof.
    clear codec_roundtrip dec.
    intros HI. unfold attempt_once. destruct (a_stopped a); [exact HI|].
    (* the state and connection after getOrCreateConnection *)
    set (got := match cur s with
                | Some c => (s, Some c)
                | None => match a_connect a with
                          | CRefused | CRegisterFail => (log [LConnFailed (attempt s)] (log [LDial] s), None)
                          | CHandshakeFail | CStoppedAfter => (log [LDial] s, None)
                          | COk cap => (log [LDial] s, Some {| c_cap := cap; c_wire := [] |})
                          end
                end).
    assert (Hgot : Inv done (fst got) /\ old (fst got) = old s /\
                   match snd got with
                   | None => True
                   | Some c => exists fs fc, Forall2 wire_ok fs (old s) /\ cur_ok fc c /\ subseq (map fst (concat fs ++ fc)) done
                   end).
    { unfold got. destruct HI as (fs & fc & Hold & Hcur & Hsub). destruct (cur s) as [c|] eqn:Ec.
      - cbn. split; [exists fs, fc; rewrite Ec; auto|]. split; [reflexivity|]. exists fs, fc. auto.
      - subst fc. destruct (a_connect a) as [| | | |cap]; cbn; (split; [exists fs, []; cbn [cur log]; rewrite Ec; auto|]); (split; [reflexivity|]); auto.
        exists fs, []. split; [exact Hold|]. split; [apply fresh_ok|exact Hsub]. }
    fold got. destruct got as [s1 [c|]]; cbn [fst snd] in Hgot; destruct Hgot as (HI1 & Hold1 & Hc); [|exact HI1].
    destruct Hc as (fs & fc & Hold & Hcur & Hsub).
    destruct (wire_of m) as [data|] eqn:Ew.
    - destruct (a_closed a).
      + (* drop *) exists (fs ++ [fc]), []. cbn [drop cur old]. rewrite Hold1. split; [|split; [reflexivity|]].
        * apply Forall2_app; [exact Hold|]. constructor; [apply cur_ok_wire_ok; exact Hcur|constructor].
        * now rewrite concat_app, app_nil_r; cbn; rewrite app_nil_r.
      + apply wire_of_good in Ew as (b & Hb & ->).
        pose proof (write_ok fc c m b Hcur Hb) as Hw. destruct (write c (frame b)) as [c' complete].
        destruct complete; cbn [orb].
        * destruct Hw as (Hc' & _). exists fs, (fc ++ [(m, b)]). cbn [log set_cur cur old]. rewrite Hold1.
          split; [exact Hold|]. split; [exact Hc'|].
          rewrite app_assoc, map_app. cbn [map fst]. now apply subseq_snoc.
        * destruct Hw as (Hc' & Hwo). destruct (a_werr a); cbn [negb].
          -- exists (fs ++ [fc]), []. cbn [log drop cur old]. rewrite Hold1. split; [|split; [reflexivity|]].
             ++ apply Forall2_app; [exact Hold|]. constructor; [exact Hwo|constructor].
             ++ now rewrite concat_app, app_nil_r; cbn; rewrite app_nil_r.
          -- exists fs, fc. cbn [log set_cur cur old]. rewrite Hold1. split; [exact Hold|]. split; [exact Hc'|].
             now apply subseq_snoc_skip.
    - exists fs, fc. cbn [log set_cur cur old]. rewrite Hold1. auto.
  Qed.

  Lemma Inv_weaken done m s : Inv done s -> Inv (done ++ [m]) s.
  Proof.
    clear codec_roundtrip dec. intros (fs & fc & A & B & C). exists fs, fc. split; [|split]; auto. now apply subseq_snoc_skip. Qed.

  Lemma Inv_sleep done s : Inv done (sleep s) <-> Inv done s.
  Proof. reflexivity. Qed.
  Lemma Inv_finish done f s : Inv done (finish f s) <-> Inv done s.
  Proof. destruct f; reflexivity. Qed.

  Lemma try_loop_inv done m : forall script s,
    Inv done s -> Inv (done ++ [m]) (fst (fst (try_loop m script s))).
  Proof.
    clear codec_roundtrip dec.
    induction script as [|a rest IH]; intros s HI; cbn [Link.try_loop fst].
    - now apply Inv_weaken.
    - pose proof (attempt_once_inv done m a s HI) as H1. destruct (attempt_once m a s) as [s1 o].
      destruct o; cbn [fst].
      + now apply Inv_finish.
      + apply Inv_finish. now apply Inv_weaken.
      + destruct (limit <=? attempt s1); cbn [fst]; [apply Inv_finish; now apply Inv_weaken|].
        apply IH. exact H1.
  Qed.

  Lemma exec_inv : forall ms done script s,
    Inv done s -> Inv (done ++ ms) (fst (exec ms script s)).
  Proof.
    clear codec_roundtrip dec.
    induction ms as [|m ms IH]; intros done script s HI; cbn [Link.exec fst].
    - now rewrite app_nil_r.
    - pose proof (try_loop_inv done m script s HI) as H1.
      destruct (try_loop m script s) as [[s1 rest] ok]. cbn [fst] in H1.
      destruct ok.
      + replace (done ++ m :: ms) with ((done ++ [m]) ++ ms) by (rewrite <- app_assoc; reflexivity).
        now apply IH.
      + cbn [fst]. destruct H1 as (fs & fc & A & B & C). exists fs, fc. split; [|split]; auto.
        replace (done ++ m :: ms) with ((done ++ [m]) ++ ms) by (rewrite <- app_assoc; reflexivity).
        now apply subseq_app_r.
  Qed.

  Lemma Inv_init : Inv [] (@init M).
  Proof. exists [], []. cbn. repeat split; constructor. Qed.

  (** what the reader of one connection delivers = the messages of its complete frames *)
  Lemma decodable_good f : Forall good f -> decodable dec (map snd f) = map fst f.
  Proof.
    induction 1 as [|p f [He _] _ IH]; [reflexivity|]. cbn [map decodable].
    rewrite (codec_roundtrip _ _ He), IH. reflexivity.
  Qed.

  Lemma legal_good f : Forall good f -> Forall legal (map snd f).
  Proof. induction 1 as [|p f [_ Hl] _ IH]; cbn; constructor; auto. Qed.

  Lemma wire_ok_delivered f w : wire_ok f w -> delivered (receive_stream dec w) = map fst f.
  Proof.
    intros (Hg & t & -> & [->|(b & k & Hb & Hk & ->)]); unfold frames.
    - rewrite app_nil_r, receive_stream_frames by now apply legal_good.
      rewrite delivered_app, delivered_on_body, decodable_good by assumption. cbn. now rewrite app_nil_r.
    - rewrite receive_stream_frames_partial by (auto using legal_good). now apply decodable_good.
  Qed.

  Lemma Inv_received done s : Inv done s -> subseq (received dec s) done.
  Proof.
    intros (fs & fc & Hold & Hcur & Hsub).
    assert (E : received dec s = map fst (concat fs ++ fc)); [|now rewrite E].
    unfold received, per_conn, wires. rewrite map_app, concat_app, map_app. f_equal.
    - clear Hsub Hcur. induction Hold as [|f w fs ws Hw _ IH]; [reflexivity|].
      cbn [map concat]. rewrite map_app, IH, (wire_ok_delivered f w Hw). reflexivity.
    - destruct (cur s) as [c|]; [|subst fc; reflexivity].
      cbn. rewrite app_nil_r. apply wire_ok_delivered. now apply cur_ok_wire_ok.
  Qed.

  (** C14 subsequence, all message lists, all scripts (= all cut offsets of all connections, all refusals,
      all retry settings), for receivers whose connections do not overlap *)
  Theorem subsequence ms script :
    subseq (received dec (fst (exec ms script (@init M)))) ms.
  Proof. apply Inv_received. change ms with ([] ++ ms). apply exec_inv, Inv_init. Qed.

  (** ---- dead letters, sleeps ---- *)
  Lemma attempt_once_shape m a s :
    let (s1, o) := attempt_once m a s in
    dead s1 = dead s /\ attempt s1 = attempt s /\
    exists tr, trace s1 = trace s ++ tr /\ count_sleeps tr = 0 /\ ~ In LDead tr /\
      match o with
      | OSuccess => exists n tr0, tr = tr0 ++ [LSent n] /\ (forall k, ~ In (LSent k) tr0)
      | _ => forall k, ~ In (LSent k) tr
      end /\
      (o = ORetry -> cur s1 = None).
  Proof.
    unfold attempt_once. destruct (a_stopped a).
    { repeat split; auto. exists []. rewrite app_nil_r. repeat split; auto; try discriminate. }
    destruct (cur s) as [c|] eqn:Ec.
    - destruct (wire_of m) as [data|].
      + destruct (a_closed a).
        * cbn. repeat split; auto. exists []. rewrite app_nil_r. repeat split; auto.
        * destruct (write c data) as [c' complete]. destruct (complete || negb (a_werr a)).
          -- cbn. repeat split; auto. exists [LSent (N.of_nat (length data))]. repeat split; auto; try discriminate.
             ++ cbn; intuition discriminate.
             ++ exists (N.of_nat (length data)), []. split; [reflexivity|]. cbn; auto.
          -- cbn. repeat split; auto. exists [LSendFailed]. repeat split; auto; cbn; intuition discriminate.
      + cbn. repeat split; auto. exists [LSendFailed]. repeat split; auto; try discriminate; cbn; intuition discriminate.
    - destruct (a_connect a) as [| | | |cap].
      1-4: cbn; repeat split; auto; eexists; (split; [rewrite <- ?app_assoc; reflexivity|]); repeat split; auto; cbn; intuition discriminate.
      destruct (wire_of m) as [data|].
      + destruct (a_closed a).
        * cbn. repeat split; auto. exists [LDial]. repeat split; auto; cbn; intuition discriminate.
        * destruct (write _ data) as [c' complete]. destruct (complete || negb (a_werr a)).
          -- cbn. repeat split; auto. exists [LDial; LSent (N.of_nat (length data))]. rewrite <- app_assoc. repeat split; auto; try discriminate.
             ++ cbn; intuition discriminate.
             ++ exists (N.of_nat (length data)), [LDial]. split; [reflexivity|]. cbn; intuition discriminate.
          -- cbn. repeat split; auto. exists [LDial; LSendFailed]. rewrite <- app_assoc. repeat split; auto; cbn; intuition discriminate.
      + cbn. repeat split; auto. exists [LDial; LSendFailed]. rewrite <- app_assoc. repeat split; auto; try discriminate; cbn; intuition discriminate.
  Qed.

  Lemma count_sleeps_app a b : count_sleeps (a ++ b) = count_sleeps a + count_sleeps b.
  Proof. induction a as [|x a IH]; [reflexivity|]. destruct x; cbn [app count_sleeps]; rewrite ?IH; lia. Qed.

  (** every Enqueue that returns ends in exactly one of: one Sent event, or one dead letter; the caller slept at
      most [limit] times *)
  Lemma try_loop_spec m : forall script s s' rest,
    attempt s <= limit ->
    try_loop m script s = (s', rest, true) ->
    attempt s' = 0 /\
    exists tr, trace s' = trace s ++ tr /\ count_sleeps tr + attempt s <= limit /\
      ((dead s' = dead s /\ exists n tr0, tr = tr0 ++ [LSent n] /\ ~ In LDead tr0 /\ forall k, ~ In (LSent k) tr0) \/
       (dead s' = dead s ++ [m] /\ exists tr0, tr = tr0 ++ [LDead] /\ ~ In LDead tr0 /\ forall k, ~ In (LSent k) tr0)).
  Proof.
    clear codec_roundtrip dec.
    induction script as [|a script IH]; intros s s' rest Hat H; cbn [Link.try_loop] in H; [discriminate|].
    pose proof (attempt_once_shape m a s) as Hs. destruct (attempt_once m a s) as [s1 o].
    destruct Hs as (Hd & Ha & tr & Htr & Hcs & Hnd & Ho & _).
    destruct o.
    - injection H as <- <-. cbn [finish attempt trace dead]. split; [reflexivity|].
      exists tr. split; [exact Htr|]. split; [lia|]. left. split; [exact Hd|].
      destruct Ho as (n & tr0 & -> & Hn). exists n, tr0. repeat split; auto.
      intros Hin. apply Hnd. apply in_or_app. now left.
    - injection H as <- <-. cbn [finish attempt trace dead]. split; [reflexivity|].
      exists (tr ++ [LDead]). rewrite app_assoc, Htr, count_sleeps_app. cbn [count_sleeps]. split; [reflexivity|]. split; [lia|].
      right. rewrite Hd. split; [reflexivity|]. exists tr. auto.
    - destruct (limit <=? attempt s1) eqn:El.
      + injection H as <- <-. cbn [finish attempt trace dead]. split; [reflexivity|].
        exists (tr ++ [LDead]). rewrite app_assoc, Htr, count_sleeps_app. cbn [count_sleeps]. split; [reflexivity|]. split; [lia|].
        right. rewrite Hd. split; [reflexivity|]. exists tr. auto.
      + apply IH in H; [|cbn [sleep attempt]; lia].
        destruct H as (H0 & tr2 & Htr2 & Hcs2 & Hcase). split; [exact H0|].
        cbn [sleep trace attempt dead] in *.
        exists (tr ++ [LSleep (attempt s1)] ++ tr2). split; [rewrite Htr2, Htr, <- !app_assoc; reflexivity|].
        rewrite !count_sleeps_app. cbn [count_sleeps]. split; [lia|].
        assert (Hpre : forall tr0, ~ In LDead tr0 -> (forall k, ~ In (LSent k) tr0) ->
                  ~ In LDead (tr ++ [LSleep (attempt s1)] ++ tr0) /\ forall k, ~ In (LSent k) (tr ++ [LSleep (attempt s1)] ++ tr0)).
        { intros tr0 A B. split; [|intros k]; intros Hin; apply in_app_or in Hin as [Hin|Hin];
            try (cbn in Hin; destruct Hin as [Hin|Hin]; [discriminate|]); eauto. now apply (Ho k). now apply (B k). }
        destruct Hcase as [(Hd2 & n & tr0 & -> & A & B)|(Hd2 & tr0 & -> & A & B)]; destruct (Hpre tr0 A B) as (A' & B').
        * left. split; [congruence|]. exists n, (tr ++ [LSleep (attempt s1)] ++ tr0). rewrite <- !app_assoc. auto.
        * right. split; [congruence|]. exists (tr ++ [LSleep (attempt s1)] ++ tr0). rewrite <- !app_assoc. auto.
  Qed.

  (** the peer is unreachable (or the connection closed) however often we try *)
  Definition hard_fail (a : answers) : Prop :=
    a_stopped a = false /\ a_closed a = true /\ match a_connect a with COk _ => False | _ => True end.

  Lemma attempt_once_hard_fail m a s data :
    wire_of m = Some data -> hard_fail a ->
    exists s1, attempt_once m a s = (s1, ORetry) /\ attempt s1 = attempt s /\ dead s1 = dead s /\ cur s1 = None /\
               exists tr, trace s1 = trace s ++ tr /\ count_sleeps tr = 0 /\ sleeps_ms tr = 0.
  Proof.
    clear codec_roundtrip dec.
    intros Hw (Hs & Hc & Hk). unfold attempt_once. rewrite Hs. destruct (cur s) as [c|] eqn:Ec.
    - rewrite Hw, Hc. eexists. split; [reflexivity|]. cbn. repeat split; auto. exists []. now rewrite app_nil_r.
    - destruct (a_connect a); try contradiction; (eexists; split; [reflexivity|]); cbn; repeat split; auto;
        eexists; (split; [rewrite <- ?app_assoc; reflexivity|]); split; reflexivity.
  Qed.

  Fixpoint nominal_ms (from : N) (n : nat) : N :=
    match n with O => 0 | S n' => backoff_ms from + nominal_ms (from + 1) n' end.

  Lemma sleeps_ms_app a b : sleeps_ms (a ++ b) = sleeps_ms a + sleeps_ms b.
  Proof. induction a as [|x a IH]; [reflexivity|]. destruct x; cbn [app sleeps_ms]; rewrite ?IH; lia. Qed.

  (** exhaustion: limit+1 failed attempts, [limit] sleeps on the caller, exactly one dead letter *)
  Lemma try_loop_exhaust m data : forall (n : nat) script s,
    wire_of m = Some data ->
    attempt s + N.of_nat n = limit ->
    (n < length script)%nat -> Forall hard_fail (firstn (S n) script) ->
    exists s', try_loop m script s = (s', skipn (S n) script, true) /\
      dead s' = dead s ++ [m] /\ attempt s' = 0 /\
      exists tr, trace s' = trace s ++ tr /\ count_sleeps tr = N.of_nat n /\ sleeps_ms tr = nominal_ms (attempt s) n.
  Proof.
    clear codec_roundtrip dec.
    induction n as [|n IH]; intros script s Hw Hat Hlen Hf; (destruct script as [|a script]; [cbn in Hlen; lia|]).
    - cbn [firstn] in Hf. pose proof (Forall_inv Hf) as Ha.
      destruct (attempt_once_hard_fail m a s data Hw Ha) as (s1 & E & A1 & D1 & _ & tr & Htr & C1 & C2).
      cbn [Link.try_loop]. rewrite E. replace (limit <=? attempt s1) with true by lia.
      eexists. split; [reflexivity|]. cbn [finish dead attempt trace]. rewrite D1. repeat split; auto.
      exists (tr ++ [LDead]). rewrite Htr, <- app_assoc, count_sleeps_app, sleeps_ms_app, C1, C2. cbn. auto.
    - cbn [firstn] in Hf. pose proof (Forall_inv Hf) as Ha. pose proof (Forall_inv_tail Hf) as Hf'.
      destruct (attempt_once_hard_fail m a s data Hw Ha) as (s1 & E & A1 & D1 & _ & tr & Htr & C1 & C2).
      cbn [Link.try_loop]. rewrite E. replace (limit <=? attempt s1) with false by lia.
      destruct (IH script (sleep s1) Hw) as (s' & E' & D' & A' & tr' & Htr' & C1' & C2').
      { cbn [sleep attempt]. lia. } { cbn in Hlen. lia. } { exact Hf'. }
      exists s'. split; [exact E'|]. cbn [sleep dead attempt trace] in *. rewrite D', D1. repeat split; auto.
      exists (tr ++ [LSleep (attempt s1)] ++ tr'). split; [rewrite Htr', Htr, <- !app_assoc; reflexivity|].
      rewrite !count_sleeps_app, !sleeps_ms_app, C1, C2, C1', C2'. cbn [count_sleeps sleeps_ms nominal_ms].
      rewrite A1. split; lia.
  Qed.

  (** a message that cannot be encoded (or whose envelope is empty / larger than 4 MiB) is dead-lettered at
      once, without a retry, as soon as a connection is at hand *)
  Lemma try_loop_encode_fail m a script s :
    wire_of m = None -> a_stopped a = false ->
    (cur s <> None \/ exists cap, a_connect a = COk cap) ->
    exists s', try_loop m (a :: script) s = (s', script, true) /\ dead s' = dead s ++ [m] /\
      exists tr, trace s' = trace s ++ tr /\ count_sleeps tr = 0.
  Proof.
    intros Hw Hs Hc. cbn [Link.try_loop]. unfold attempt_once. rewrite Hs, Hw.
    destruct (cur s) as [c|] eqn:Ec.
    - eexists. split; [reflexivity|]. cbn. split; [reflexivity|]. eexists. split; [rewrite <- app_assoc; reflexivity|]. reflexivity.
    - destruct Hc as [Hc|(cap & ->)]; [congruence|].
      eexists. split; [reflexivity|]. cbn. split; [reflexivity|]. eexists. split; [rewrite <- !app_assoc; reflexivity|]. reflexivity.
  Qed.

  (** ---- recovery ---- *)
  (** the peer is reachable, nothing is cut from now on, errors are reported *)
  Definition fine (a : answers) : Prop :=
    a_stopped a = false /\ a_connect a = COk None /\ a_closed a = false /\ a_werr a = true.

  Lemma delivered_single m b : good (m, b) -> delivered (receive_stream dec (frame b)) = [m].
  Proof.
    intros Hg. apply (wire_ok_delivered [(m, b)]). split; [constructor; [exact Hg|constructor]|].
    exists []. unfold frames. cbn. rewrite !app_nil_r. split; [reflexivity|left; reflexivity].
  Qed.

  (** after a reported failure the connection has been dropped ([attempt_once_shape]: ORetry -> cur = None);
      from there the next attempt opens a new connection at a frame boundary and the message arrives *)
  Lemma recovers_after_drop m a script s data :
    wire_of m = Some data -> fine a -> cur s = None ->
    exists s', try_loop m (a :: script) s = (s', script, true) /\
      received dec s' = received dec s ++ [m] /\ dead s' = dead s /\ old s' = old s.
  Proof.
    intros Hw (Hs & Hc & Hcl & He) Ec. pose proof Hw as Hw0. apply wire_of_good in Hw0 as (b & Hb & ->).
    cbn [Link.try_loop]. unfold attempt_once. rewrite Hs, Ec, Hc.
    rewrite Hw, Hcl. cbn [write c_cap c_wire app orb].
    eexists. split; [reflexivity|]. cbn [finish dead old]. repeat split; auto.
    unfold received, per_conn, wires. cbn [finish log set_cur cur old]. rewrite Ec, app_nil_r.
    rewrite map_app, concat_app. cbn [map concat c_wire]. rewrite app_nil_r, (delivered_single m b Hb). reflexivity.
  Qed.

  (** with at least one retry configured, from ANY reachable state (healthy connection, connection already cut,
      no connection) a message sent once the peer is reachable again is delivered, exactly once, after what was
      delivered before *)
  Lemma recovers_retry done m a1 a2 script s data :
    1 <= limit -> Inv done s -> attempt s = 0 ->
    wire_of m = Some data -> fine a1 -> fine a2 ->
    exists s' rest, try_loop m (a1 :: a2 :: script) s = (s', rest, true) /\
      received dec s' = received dec s ++ [m] /\ dead s' = dead s.
  Proof.
    intros Hl HI Hat Hw F1 F2. remember (a2 :: script) as sc eqn:Esc. destruct (cur s) as [c|] eqn:Ec.
    2:{ destruct (recovers_after_drop m a1 sc s data Hw F1 Ec) as (s' & E & R & Dd & _). eauto. }
    pose proof Hw as Hw'. apply wire_of_good in Hw' as (b & Hb & ->).
    destruct F1 as (Hs & Hc & Hcl & He).
    destruct HI as (fs & fc & Hold & Hcur & Hsub). rewrite Ec in Hcur.
    pose proof (write_ok fc c m b Hcur Hb) as Hwr.
    cbn [Link.try_loop]. unfold attempt_once. rewrite Hs, Ec, Hw, Hcl.
    destruct (write c (frame b)) as [c' complete]. destruct complete; cbn [orb].
    - destruct Hwr as (Hc' & Hwire & Hfr). eexists _, _. split; [reflexivity|]. cbn [finish dead]. split; [|reflexivity].
      unfold received, per_conn, wires. cbn [finish log set_cur cur old]. rewrite Ec.
      rewrite !map_app, !concat_app. cbn [map concat]. rewrite !app_nil_r, <- app_assoc. f_equal.
      rewrite (wire_ok_delivered _ _ (cur_ok_wire_ok _ _ Hc')), (wire_ok_delivered _ _ (cur_ok_wire_ok _ _ Hcur)).
      rewrite map_app. reflexivity.
    - destruct Hwr as (Hc' & Hwo). rewrite He. cbn [negb].
      cbn [log drop attempt]. rewrite Hat. replace (limit <=? 0) with false by lia.
      set (s1 := sleep _).
      assert (Ec1 : cur s1 = None) by reflexivity.
      destruct (recovers_after_drop m a2 script s1 (frame b) Hw F2 Ec1) as (s' & E & R & Dd & _).
      exists s', script. rewrite Esc. split; [exact E|]. rewrite R, Dd. split; [|reflexivity]. f_equal.
      unfold received, per_conn, wires. cbn [s1 sleep log drop cur old]. rewrite Ec.
      rewrite !app_nil_r, !map_app, !concat_app. cbn [map concat]. rewrite !app_nil_r. f_equal.
      now rewrite (wire_ok_delivered _ _ Hwo), (wire_ok_delivered _ _ (cur_ok_wire_ok _ _ Hcur)).
  Qed.
End P.

(** ---- the caller sleeps: witnesses ---- *)
Definition refuse : answers := {| a_stopped := false; a_connect := CRefused; a_closed := false; a_werr := true |}.
Definition id_encode (b : bytes) : option bytes := Some b.

Lemma tell_blocks_witness :
  let s := fst (fst (try_loop id_encode 3 [7] [refuse; refuse; refuse; refuse] init)) in
  count_sleeps (trace s) = 3 /\ sleeps_ms (trace s) = 700 /\ dead s = [[7]].
Proof. vm_compute. auto. Qed.

(** ---- overlapping connections reorder: witness ---- *)
Definition ok_conn (cap : option N) : answers := {| a_stopped := false; a_connect := COk cap; a_closed := false; a_werr := true |}.

Lemma overlap_witness :
  let ms := [[1]; [2]; [3]] in
  let s := fst (exec id_encode 0 ms [ok_conn (Some 5); ok_conn None; ok_conn None] init) in
  per_conn (fun b => Some b) s = [[[1]]; [[3]]] /\ dead s = [[2]] /\
  merges (per_conn (fun b => Some b) s) [[3]; [1]] /\ ~ subseq [[3]; [1]] ms.
Proof.
  cbn zeta. split; [vm_compute; reflexivity|]. split; [vm_compute; reflexivity|]. split.
  - replace (per_conn _ _) with [[[1]]; [[3]]] by (vm_compute; reflexivity).
    apply (merges_cons [[[1]]] [3] [] []). cbn.
    apply (merges_cons [] [1] [] [[]]). cbn. apply merges_nil. repeat constructor.
  - intros H. inversion H as [| ? ? ? H1 | ]; subst. inversion H1 as [| ? ? ? H2 | ]; subst.
    inversion H2 as [| ? ? ? H3 | ? ? ? H3 ]; subst.
    + inversion H3.
    + inversion H3 as [| ? ? ? H4 | ]; subst.
Qed.

(** M5, as modelled: a Write that does not complete has delivered a strict prefix and the connection carries
    nothing more *)
Lemma write_incomplete_strict_prefix c data c' :
  write c data = (c', false) ->
  exists k, (k < length data)%nat /\ c_wire c' = c_wire c ++ firstn k data /\ c_cap c' = Some 0.
Proof.
  unfold write. destruct (c_cap c) as [k|]; [|discriminate].
  destruct (N.of_nat (length data) <=? k) eqn:E; [discriminate|]. intros [= <-].
  exists (N.to_nat k). cbn. repeat split; auto. lia.
Qed.

Lemma write_complete_all c data c' :
  write c data = (c', true) -> c_wire c' = c_wire c ++ data.
Proof.
  unfold write. destruct (c_cap c) as [k|]; [|now intros [= <-]].
  destruct (N.of_nat (length data) <=? k); [now intros [= <-]|discriminate].
Qed.

Definition refuse_closed : answers := {| a_stopped := false; a_connect := CRefused; a_closed := true; a_werr := true |}.

Lemma overlap_refuted :
  exists (ms : list bytes) (script : list answers) (r : list bytes),
    let s := fst (exec id_encode 0 ms script init) in
    merges (per_conn (fun b => Some b) s) r /\ ~ subseq r ms.
Proof.
  exists [[1]; [2]; [3]], [ok_conn (Some 5); ok_conn None; ok_conn None], [[3]; [1]].
  pose proof overlap_witness as H. cbn zeta in H. cbn zeta. tauto.
Qed.

Lemma tell_refuted :
  exists (limit : N) (m : bytes) (script : list answers),
    let s := fst (fst (try_loop id_encode limit m script init)) in
    count_sleeps (trace s) = 3 /\ sleeps_ms (trace s) = 700 /\ dead s = [m].
Proof. exists 3, [7], [refuse; refuse; refuse; refuse]. exact tell_blocks_witness. Qed.

Lemma try_loop_limit0_no_sleep {M} (encode : M -> option bytes) m script (s s' : @st M) rest :
  attempt s = 0 ->
  try_loop encode 0 m script s = (s', rest, true) ->
  exists tr, trace s' = trace s ++ tr /\ count_sleeps tr = 0.
Proof.
  intros Ha H. apply try_loop_spec in H; [|lia]. destruct H as (_ & tr & Htr & Hc & _).
  exists tr. split; [exact Htr|lia].
Qed.

Lemma retry_drops {M} (encode : M -> option bytes) m a (s s1 : @st M) :
  attempt_once encode m a s = (s1, ORetry) -> cur s1 = None.
Proof.
  intros H. pose proof (attempt_once_shape encode m a s) as Hs. rewrite H in Hs.
  destruct Hs as (_ & _ & tr & _ & _ & _ & _ & Hd). now apply Hd.
Qed.
