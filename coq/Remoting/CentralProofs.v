(** Lemmas about Remoting/Central.v: for EVERY schedule of any number of concurrent senders there is at most one
    mailbox (= one connection chain) per peer address, and every sender's messages to an address go onto that one
    wire exactly once, in program order. *)
From Coq Require Import List NArith Bool Lia PeanoNat.
From Vivid Require Import Remoting.Central.
Import ListNotations.

Section P.
  Context {A M : Type}.
  Variable eqb : A -> A -> bool.
  Hypothesis eqb_spec : forall a b, eqb a b = true <-> a = b.

  Notation lookup := (lookup eqb).
  Notation get_or_create := (get_or_create eqb).
  Notation step := (@step A M eqb).
  Notation run := (@run A M eqb).
  Notation entry := (entry A M).
  Notation cstate := (cstate A M).

  Lemma eqb_refl a : eqb a a = true.
  Proof. now apply eqb_spec. Qed.

  (** ---- the table ---- *)
  Lemma lookup_app_some a t u id : lookup a t = Some id -> lookup a (t ++ u) = Some id.
  Proof.
    induction t as [|[b k] t IH]; cbn; [discriminate|]. destruct (eqb b a); auto.
  Qed.

  Lemma lookup_app_none a t b k : lookup a t = None -> lookup a (t ++ [(b, k)]) = if eqb b a then Some k else None.
  Proof.
    induction t as [|[c j] t IH]; cbn; [reflexivity|]. destruct (eqb c a); [discriminate|auto].
  Qed.

  (** GetOrCreate returns the mailbox the table holds for the address afterwards, and never disturbs another entry *)
  Lemma get_or_create_lookup a t : lookup a (fst (get_or_create a t)) = Some (snd (get_or_create a t)).
  Proof.
    unfold get_or_create. destruct (lookup a t) as [id|] eqn:E; cbn [fst snd]; [exact E|].
    rewrite lookup_app_none by exact E. now rewrite eqb_refl.
  Qed.

  Lemma get_or_create_stable a b t id : lookup b t = Some id -> lookup b (fst (get_or_create a t)) = Some id.
  Proof.
    intros H. unfold get_or_create. destruct (lookup a t); cbn [fst]; [exact H|]. now apply lookup_app_some.
  Qed.

  (** ids are creation indices, every address occurs once *)
  Definition wf (t : list (A * nat)) : Prop :=
    forall k b id, nth_error t k = Some (b, id) -> id = k /\ lookup b t = Some k.

  Lemma lookup_nth a t id : lookup a t = Some id -> exists k b, nth_error t k = Some (b, id) /\ eqb b a = true.
  Proof.
    induction t as [|[b j] t IH]; cbn; [discriminate|]. destruct (eqb b a) eqn:E.
    - intros [= <-]. exists 0, b. auto.
    - intros H. destruct (IH H) as (k & c & Hk & Hc). exists (S k), c. auto.
  Qed.

  Lemma wf_get_or_create a t : wf t -> wf (fst (get_or_create a t)).
  Proof.
    intros W. unfold get_or_create. destruct (lookup a t) as [id|] eqn:E; cbn [fst]; [exact W|].
    intros k b id Hk. destruct (Nat.lt_ge_cases k (length t)) as [Hlt|Hge].
    - rewrite nth_error_app1 in Hk by exact Hlt. destruct (W k b id Hk) as [-> Hl]. split; [reflexivity|].
      now apply lookup_app_some.
    - rewrite nth_error_app2 in Hk by exact Hge. destruct (k - length t) as [|j] eqn:Ej; [|destruct j; discriminate].
      cbn in Hk. injection Hk as <- <-. assert (k = length t) by lia. subst k. split; [reflexivity|].
      rewrite lookup_app_none by exact E. now rewrite eqb_refl.
  Qed.

  Lemma wf_inj t a b id : wf t -> lookup a t = Some id -> lookup b t = Some id -> a = b.
  Proof.
    intros W Ha Hb. destruct (lookup_nth a t id Ha) as (k & a' & Hk & Ea). destruct (lookup_nth b t id Hb) as (j & b' & Hj & Eb).
    destruct (W k a' id Hk) as [-> _]. destruct (W j b' k Hj) as [-> _]. rewrite Hk in Hj. injection Hj as ->.
    apply eqb_spec in Ea, Eb. congruence.
  Qed.

  (** ---- lists ---- *)
  Lemma nth_error_set_nth {X} (l : list X) i j x :
    nth_error (set_nth j x l) i = if Nat.eqb i j then (if Nat.ltb j (length l) then Some x else None) else nth_error l i.
  Proof.
    revert i j. induction l as [|y l IH]; intros i j.
    - destruct j, i; cbn; try reflexivity; destruct (Nat.eqb i j); reflexivity.
    - destruct j as [|j]; destruct i as [|i]; cbn [set_nth nth_error Nat.eqb length]; try reflexivity.
      rewrite IH. destruct (Nat.eqb i j); [|reflexivity].
      change (Nat.ltb (S j) (S (length l))) with (Nat.ltb j (length l)). reflexivity.
  Qed.

  Lemma set_nth_length {X} (l : list X) j x : length (set_nth j x l) = length l.
  Proof. revert j. induction l as [|y l IH]; intros [|j]; cbn; auto. Qed.

  (** ---- the invariant ---- *)
  (** what thread [i] has put on wires so far, as (address, message) in the order of its Enqueues *)
  Definition done_by (i : nat) (l : list entry) : list (A * M) :=
    map (fun e => (e_addr e, e_msg e)) (filter (fun e => Nat.eqb (e_from e) i) l).

  Definition held (th : thread A M) : list (A * M) :=
    match t_hold th with Some (_, a, m) => [(a, m)] | None => [] end.

  Record Inv (progs : list (list (A * M))) (s : cstate) : Prop := {
    inv_wf : wf (cs_tbl s);
    inv_len : length (cs_thr s) = length progs;
    (* every Enqueue went through the mailbox the table holds for its address *)
    inv_log : forall e, In e (cs_log s) -> lookup (e_addr e) (cs_tbl s) = Some (e_box e);
    inv_hold : forall i th id a m, nth_error (cs_thr s) i = Some th -> t_hold th = Some (id, a, m) ->
                                   lookup a (cs_tbl s) = Some id;
    (* nothing lost, nothing duplicated, nothing reordered per sender *)
    inv_acct : forall i th p, nth_error (cs_thr s) i = Some th -> nth_error progs i = Some p ->
                              done_by i (cs_log s) ++ held th ++ t_todo th = p;
    inv_from : forall e, In e (cs_log s) -> e_from e < length progs;
  }.

  Lemma Inv_init progs : Inv progs (init progs).
  Proof.
    split; cbn.
    - intros k b id H. destruct k; discriminate.
    - apply map_length.
    - intros e [].
    - intros i th id a m H Hh. rewrite nth_error_map in H. destruct (nth_error progs i); [|discriminate].
      injection H as <-. discriminate.
    - intros i th p H Hp. rewrite nth_error_map, Hp in H. injection H as <-. reflexivity.
    - intros e [].
  Qed.

  Lemma done_by_app i l e : done_by i (l ++ [e]) = done_by i l ++ (if Nat.eqb (e_from e) i then [(e_addr e, e_msg e)] else []).
  Proof. unfold done_by. rewrite filter_app, map_app. cbn. destruct (Nat.eqb (e_from e) i); reflexivity. Qed.

  Lemma step_inv progs i s : Inv progs s -> Inv progs (step i s).
  Proof.
    intros I. unfold Central.step. destruct (nth_error (cs_thr s) i) as [th|] eqn:Eth; [|exact I].
    assert (Hi : i < length (cs_thr s)) by (apply nth_error_Some; congruence).
    destruct (t_hold th) as [[[id a] m]|] eqn:Eh.
    - (* Enqueue *)
      split; cbn [cs_tbl cs_log cs_thr].
      + apply I.
      + rewrite set_nth_length. apply I.
      + intros e He. apply in_app_or in He as [He|[<-|[]]]; [now apply I|]. cbn. eapply (inv_hold _ _ I); eauto.
      + intros j th' id' a' m' Hj Hh. rewrite nth_error_set_nth in Hj. destruct (Nat.eqb j i) eqn:Eji.
        * destruct (Nat.ltb i (length (cs_thr s))); [|discriminate]. injection Hj as <-. discriminate.
        * eapply (inv_hold _ _ I); eauto.
      + intros j th' p Hj Hp. rewrite nth_error_set_nth in Hj. rewrite done_by_app. cbn [e_from e_addr e_msg].
        destruct (Nat.eqb j i) eqn:Eji.
        * apply Nat.eqb_eq in Eji. subst j. apply Nat.ltb_lt in Hi. rewrite Hi in Hj. injection Hj as <-.
          rewrite Nat.eqb_refl. cbn [held t_hold t_todo app].
          pose proof (inv_acct _ _ I i th p Eth Hp) as Hacc. unfold held in Hacc. rewrite Eh in Hacc.
          rewrite <- app_assoc. exact Hacc.
        * rewrite Nat.eqb_sym, Eji, app_nil_r. eapply (inv_acct _ _ I); eauto.
      + intros e He. apply in_app_or in He as [He|[<-|[]]]; [now apply I|]. cbn. rewrite <- (inv_len _ _ I). exact Hi.
    - destruct (t_todo th) as [|[a m] rest] eqn:Et; [exact I|].
      (* GetOrCreate *)
      pose proof (get_or_create_lookup a (cs_tbl s)) as Hl. pose proof (wf_get_or_create a (cs_tbl s) (inv_wf _ _ I)) as Hw.
      destruct (get_or_create a (cs_tbl s)) as [t' id] eqn:Eg. cbn [fst snd] in Hl, Hw.
      assert (Hst : forall b k, lookup b (cs_tbl s) = Some k -> lookup b t' = Some k).
      { intros b k H. pose proof (get_or_create_stable a b (cs_tbl s) k H) as H'. rewrite Eg in H'. exact H'. }
      split; cbn [cs_tbl cs_log cs_thr].
      + exact Hw.
      + rewrite set_nth_length. apply I.
      + intros e He. apply Hst. now apply I.
      + intros j th' id' a' m' Hj Hh. rewrite nth_error_set_nth in Hj. destruct (Nat.eqb j i) eqn:Eji.
        * destruct (Nat.ltb i (length (cs_thr s))); [|discriminate]. injection Hj as <-. cbn in Hh. injection Hh as <- <- <-. exact Hl.
        * apply Hst. eapply (inv_hold _ _ I); eauto.
      + intros j th' p Hj Hp. rewrite nth_error_set_nth in Hj. destruct (Nat.eqb j i) eqn:Eji.
        * apply Nat.eqb_eq in Eji. subst j. apply Nat.ltb_lt in Hi. rewrite Hi in Hj. injection Hj as <-.
          cbn [held t_hold t_todo app].
          pose proof (inv_acct _ _ I i th p Eth Hp) as Hacc. unfold held in Hacc. rewrite Eh, Et in Hacc. exact Hacc.
        * eapply (inv_acct _ _ I); eauto.
      + apply I.
  Qed.

  Lemma run_inv progs sched : forall s, Inv progs s -> Inv progs (run sched s).
  Proof. induction sched as [|i sched IH]; intros s I; [exact I|]. cbn. apply IH, step_inv, I. Qed.

  (** ---- ONE MAILBOX PER ADDRESS, every schedule ---- *)
  Theorem one_mailbox_per_address progs sched e1 e2 :
    let s := run sched (init progs) in
    In e1 (cs_log s) -> In e2 (cs_log s) -> (e_addr e1 = e_addr e2 <-> e_box e1 = e_box e2).
  Proof.
    intros s H1 H2. pose proof (run_inv progs sched _ (Inv_init progs)) as I. fold s in I.
    pose proof (inv_log _ _ I e1 H1) as L1. pose proof (inv_log _ _ I e2 H2) as L2. split; intros E.
    - rewrite E in L1. congruence.
    - rewrite E in L1. eapply wf_inj; eauto. apply I.
  Qed.

  (** the wire of address [a] carries exactly the Enqueues addressed to [a] *)
  Lemma log_of_is_addr progs s a :
    Inv progs s -> log_of eqb a s = filter (fun e => eqb (e_addr e) a) (cs_log s).
  Proof.
    intros I. unfold log_of, box_log. destruct (lookup a (cs_tbl s)) as [id|] eqn:El.
    - apply filter_ext_in. intros e He. pose proof (inv_log _ _ I e He) as L.
      destruct (Nat.eqb (e_box e) id) eqn:E1.
      + apply Nat.eqb_eq in E1. subst id. symmetry. apply eqb_spec. eapply wf_inj; eauto. apply I.
      + destruct (eqb (e_addr e) a) eqn:E2; [|reflexivity]. apply eqb_spec in E2. rewrite E2 in L.
        rewrite L in El. injection El as <-. now rewrite Nat.eqb_refl in E1.
    - symmetry.
      assert (Hl : forall e', In e' (cs_log s) -> eqb (e_addr e') a = false).
      { intros e' He'. destruct (eqb (e_addr e') a) eqn:E2; [|reflexivity]. apply eqb_spec in E2.
        pose proof (inv_log _ _ I e' He') as L. rewrite E2 in L. congruence. }
      clear I. induction (cs_log s) as [|x l IHl]; [reflexivity|]. cbn [filter]. rewrite (Hl x (or_introl eq_refl)).
      apply IHl. intros e' He'. apply Hl. now right.
  Qed.

  Lemma sent_by_log_of progs s a i :
    Inv progs s -> sent_by i (log_of eqb a s) = to_addr eqb a (done_by i (cs_log s)).
  Proof.
    intros I. rewrite (log_of_is_addr progs s a I). unfold sent_by, to_addr, done_by.
    induction (cs_log s) as [|e l IH]; [reflexivity|]. cbn [filter].
    destruct (eqb (e_addr e) a) eqn:Ea; destruct (Nat.eqb (e_from e) i) eqn:Ei; cbn [filter map fst snd]; rewrite ?Ea, ?Ei; cbn [map snd]; rewrite ?IH; reflexivity.
  Qed.

  Lemma to_addr_app a (p q : list (A * M)) : to_addr eqb a (p ++ q) = to_addr eqb a p ++ to_addr eqb a q.
  Proof. unfold to_addr. now rewrite filter_app, map_app. Qed.

  (** ---- PER-SENDER FIFO, exactly once, every schedule ---- *)
  (** at any moment: what sender i has on the wire of [a] is a prefix of its program's messages to [a] ... *)
  Theorem per_sender_prefix progs sched i p a :
    nth_error progs i = Some p ->
    exists rest, to_addr eqb a p = sent_by i (log_of eqb a (run sched (init progs))) ++ rest.
  Proof.
    intros Hp. pose proof (run_inv progs sched _ (Inv_init progs)) as I. set (s := run sched (init progs)) in *.
    assert (Hlen : i < length (cs_thr s)) by (rewrite (inv_len _ _ I); apply nth_error_Some; congruence).
    destruct (nth_error (cs_thr s) i) as [th|] eqn:Eth; [|apply nth_error_None in Eth; lia].
    pose proof (inv_acct _ _ I i th p Eth Hp) as Hacc.
    exists (to_addr eqb a (held th ++ t_todo th)). rewrite (sent_by_log_of progs s a i I), <- to_addr_app, Hacc. reflexivity.
  Qed.

  (** ... and when every sender is done: exactly its messages to [a], in program order *)
  Theorem per_sender_fifo progs sched i p a :
    nth_error progs i = Some p ->
    finished (run sched (init progs)) ->
    sent_by i (log_of eqb a (run sched (init progs))) = to_addr eqb a p.
  Proof.
    intros Hp Hf. pose proof (run_inv progs sched _ (Inv_init progs)) as I. set (s := run sched (init progs)) in *.
    assert (Hlen : i < length (cs_thr s)) by (rewrite (inv_len _ _ I); apply nth_error_Some; congruence).
    destruct (nth_error (cs_thr s) i) as [th|] eqn:Eth; [|apply nth_error_None in Eth; lia].
    pose proof (inv_acct _ _ I i th p Eth Hp) as Hacc.
    unfold finished in Hf. rewrite Forall_forall in Hf. destruct (Hf th (nth_error_In _ _ Eth)) as [Ht Hh].
    unfold held in Hacc. rewrite Ht, Hh, !app_nil_r in Hacc.
    rewrite (sent_by_log_of progs s a i I), Hacc. reflexivity.
  Qed.

  (** nothing but the senders' messages is on the wire *)
  Theorem wire_only_from_senders progs sched e :
    In e (cs_log (run sched (init progs))) -> e_from e < length progs.
  Proof. intros H. pose proof (run_inv progs sched _ (Inv_init progs)) as I. now apply (inv_from _ _ I). Qed.
End P.

(** ---- the excluded variant: two senders, first contact at the same time ---- *)
Definition ow_progs : list (list (nat * nat)) := [[(7, 10); (7, 11)]; [(7, 20); (7, 21)]].
(** both miss in Load; both LoadOrStore; each sends its first message through ITS OWN mailbox; the second messages
    find the table's mailbox *)
Definition ow_sched : list nat := [0; 1; 0; 1; 0; 1; 0; 0; 1; 1].

Lemma orphan_witness :
  let s := orun Nat.eqb ow_sched (oinit ow_progs) in
  map (fun e => (e_box e, e_from e, e_msg e)) (os_log s) = [(0, 0, 10); (1, 1, 20); (0, 0, 11); (0, 1, 21)] /\
  (* sender 1's two messages to the one address 7 travel on two different connections *)
  map e_msg (box_log 0 (os_log s)) = [10; 11; 21] /\ map e_msg (box_log 1 (os_log s)) = [20].
Proof. vm_compute. auto. Qed.
