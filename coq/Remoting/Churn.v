(** Receiver churn: what the receiving SYSTEM does with the messages a healthy connection delivers while the local
    actors they are addressed to are killed, re-created under the same name, and restarted by supervision.

    internal/actor/system.go as it is in /repo now:
      HandleRemotingEnvelop   for EVERY inbound envelope a fresh receiver Ref is built (NewRef; rebuilt with the
                              system's own address when the wire address is an alias) and resolved by findMailbox
                              AT ARRIVAL TIME: actorContexts.Load(path) -> the mailbox of the Context registered at
                              that path now; nothing registered -> deadLetterMailbox (a DeathLetterEvent on the
                              receiving system).  A fresh Ref has an empty mailbox cache, so no earlier resolution
                              is remembered.
      Context.ActorOf         appendActorContext = LoadOrStore: a path that is taken is refused, a free one is bound
                              to the new Context before ActorOf returns.
      killedHandler           cleanupIfNotRestarting: removeActorContext(path) when the actor is finally killed;
                              handleRestart: a supervision restart keeps Context, path and mailbox (the actor gets a
                              new OnLaunch: a new epoch of the same incarnation).

    The steps of a script are separated by round trips in the harness (everything sent was received before the
    registry changes, and the change is complete before the next traffic), so a script is a sequence. *)
From Coq Require Import List NArith Bool.
From Vivid Require Import Codec.Prim Remoting.Frame.
Import ListNotations.
Local Open Scope N_scope.

Fixpoint bytes_eqb (a b : bytes) : bool :=
  match a, b with
  | [], [] => true
  | x :: a', y :: b' => (x =? y) && bytes_eqb a' b'
  | _, _ => false
  end.

(** the actor registered at a path: which spawn it is (chosen by the script) and how often it was restarted *)
Record inst : Type := { i_inc : N; i_epoch : N }.

(** actorContexts restricted to actors (futures never live at the paths of a script) *)
Notation registry := (list (bytes * inst)).

Fixpoint lookup (p : bytes) (r : registry) : option inst :=
  match r with
  | [] => None
  | (q, a) :: t => if bytes_eqb q p then Some a else lookup p t
  end.

Fixpoint remove (p : bytes) (r : registry) : registry :=
  match r with
  | [] => []
  | (q, a) :: t => if bytes_eqb q p then remove p t else (q, a) :: remove p t
  end.

(** ActorOf under a taken name fails and changes nothing *)
Definition spawn (p : bytes) (inc : N) (r : registry) : registry :=
  match lookup p r with
  | Some _ => r
  | None => (p, {| i_inc := inc; i_epoch := 0 |}) :: r
  end.

Fixpoint restart (p : bytes) (r : registry) : registry :=
  match r with
  | [] => []
  | (q, a) :: t =>
      if bytes_eqb q p then (q, {| i_inc := i_inc a; i_epoch := i_epoch a + 1 |}) :: t
      else (q, a) :: restart p t
  end.

Inductive step : Type :=
| SSpawn (p : bytes) (inc : N)      (* ActorOf with that name succeeded or was refused *)
| SKill (p : bytes)                 (* the actor at p was killed and its termination awaited *)
| SRestart (p : bytes)              (* the actor at p failed and its supervisor restarted it *)
| STraffic (chunks : list bytes).   (* the reads of the connection, starting at a frame boundary *)

Definition reg_step (s : step) (r : registry) : registry :=
  match s with
  | SSpawn p inc => spawn p inc r
  | SKill p => remove p r
  | SRestart p => restart p r
  | STraffic _ => r
  end.

(** a history without the envelopes that were received: only what changed the registry *)
Fixpoint strip_traffic (ss : list step) : list step :=
  match ss with
  | [] => []
  | STraffic _ :: t => strip_traffic t
  | s :: t => s :: strip_traffic t
  end.

Fixpoint reg_after (ss : list step) (r : registry) : registry :=
  match ss with
  | [] => r
  | s :: t => reg_after t (reg_step s r)
  end.

Section Churn.
  Context {D : Type}.
  Variable dec : bytes -> option D.       (* serialize.DecodeEnvelopWithRemoting *)
  Variable rpath : D -> bytes.            (* the receiver path of a decoded envelope *)

  Inductive outcome : Type :=
  | ODeliver (p : bytes) (a : inst) (d : D)    (* enqueued into the mailbox of the actor registered at p *)
  | ODead (p : bytes) (d : D).                 (* DeathLetterEvent on the receiving system *)

  Definition dispatch (r : registry) (d : D) : outcome :=
    match lookup (rpath d) r with
    | Some a => ODeliver (rpath d) a d
    | None => ODead (rpath d) d
    end.

  (** everything the connection reader does, phase after phase (for the counters of the observation) *)
  Fixpoint churn_events (ss : list step) : list (rev D) :=
    match ss with
    | [] => []
    | STraffic ch :: t => receive dec ch ++ churn_events t
    | _ :: t => churn_events t
    end.

  Fixpoint run_churn (ss : list step) (r : registry) : list outcome :=
    match ss with
    | [] => []
    | STraffic ch :: t => map (dispatch r) (delivered (receive dec ch)) ++ run_churn t r
    | s :: t => run_churn t (reg_step s r)
    end.

  (** projections used by the observation: per path, who got what and what was dead-lettered *)
  Fixpoint delivered_at (p : bytes) (os : list outcome) : list (inst * D) :=
    match os with
    | [] => []
    | ODeliver q a d :: t => if bytes_eqb q p then (a, d) :: delivered_at p t else delivered_at p t
    | ODead _ _ :: t => delivered_at p t
    end.

  Fixpoint dead_at (p : bytes) (os : list outcome) : list D :=
    match os with
    | [] => []
    | ODead q d :: t => if bytes_eqb q p then d :: dead_at p t else dead_at p t
    | ODeliver _ _ _ :: t => dead_at p t
    end.
End Churn.

Arguments ODeliver {D} p a d.
Arguments ODead {D} p d.
