"""Per-property texts of MANIFEST.json (kept next to the registry so the manifest is regenerated, never hand-edited)."""

META = {
    "C16": {
        "text": "22 kernel-checked theorems about the Gallina model of VersionVector (Compare = pointwise order of counters with absent=0; reflexive/converse/antisymmetric/transitive; Merge commutative, associative, idempotent as maps and the least upper bound; Increment strictly After with exact error characterisation; byte-level Read(Write v ++ rest) = (v, rest) for every vector within the caps), for all vectors over any node-id set. The model is tied to the Go code on every run by a differential check: exhaustive over the 64-vector small domain (all ops, all pairs) plus seeded random vectors with extreme counters and invalid addresses plus truncated/corrupted encodings; algebraic laws and operand immutability are also evaluated directly on the implementation.",
        "design_ref": "DESIGN.md §4 C16",
        "note": "Trusted: Coq kernel + vm_compute; ExtrOcamlBasic extraction (cross-checked by vm_compute on a sample each run); the harness; Go maps modelled as finite maps. 'Operands are never modified' is decided on the implementation only (vacuous in a functional model). AtomicVersionVector not modelled.",
        "technique": "Coq proof (induction / finite-map extensionality) over a hand-written model + differential correspondence check against the Go code",
    },
}

NOT_APPLICABLE = [
    {"property_id": "C01", "reason": "machinery under construction in this session: not yet claimed (the technique applies; see DESIGN.md §4 C01)"},
    {"property_id": "C02", "reason": "machinery under construction in this session: not yet claimed (the technique applies; see DESIGN.md §4 C02)"},
    {"property_id": "C03", "reason": "machinery under construction in this session: not yet claimed (the technique applies; see DESIGN.md §4 C03)"},
    {"property_id": "C04", "reason": "machinery under construction in this session: not yet claimed (the technique applies; see DESIGN.md §4 C04)"},
    {"property_id": "C05", "reason": "machinery under construction in this session: not yet claimed (the technique applies; see DESIGN.md §4 C05)"},
    {"property_id": "C06", "reason": "machinery under construction in this session: not yet claimed (the technique applies; see DESIGN.md §4 C06)"},
    {"property_id": "C07", "reason": "machinery under construction in this session: not yet claimed (the technique applies; see DESIGN.md §4 C07)"},
    {"property_id": "C08", "reason": "machinery under construction in this session: not yet claimed (the technique applies; see DESIGN.md §4 C08)"},
    {"property_id": "C09", "reason": "machinery under construction in this session: not yet claimed (the technique applies; see DESIGN.md §4 C09)"},
    {"property_id": "C10", "reason": "machinery under construction in this session: not yet claimed (the technique applies; see DESIGN.md §4 C10)"},
    {"property_id": "C11", "reason": "machinery under construction in this session: not yet claimed (the technique applies; see DESIGN.md §4 C11)"},
    {"property_id": "C12", "reason": "machinery under construction in this session: not yet claimed (the technique applies; see DESIGN.md §4 C12)"},
    {"property_id": "C13", "reason": "machinery under construction in this session: not yet claimed (the technique applies; see DESIGN.md §4 C13)"},
    {"property_id": "C14", "reason": "machinery under construction in this session: not yet claimed (the technique applies; see DESIGN.md §4 C14)"},
    {"property_id": "C15", "reason": "machinery under construction in this session: not yet claimed (the technique applies; see DESIGN.md §4 C15)"},
    {"property_id": "C17", "reason": "machinery under construction in this session: not yet claimed (the technique applies; see DESIGN.md §4 C17)"},
    {"property_id": "C18", "reason": "machinery under construction in this session: not yet claimed (the technique applies; see DESIGN.md §4 C18)"},
    {"property_id": "C19", "reason": "machinery under construction in this session: not yet claimed (the technique applies; see DESIGN.md §4 C19)"},
    {"property_id": "C20", "reason": "machinery under construction in this session: not yet claimed (the technique applies; see DESIGN.md §4 C20)"}
]

NOTES = "Every claimed property is decided by theorems in coq/Properties/<id>.v (statements only, each closed by `exact`, each followed by Print Assumptions) about models in coq/, tied to /repo's current working tree by bin/check's correspondence run. See DESIGN.md."
