"""Registry: merged from checks/reg/*.py (one file per component group so that groups can be developed
independently). Each file may define COMPONENTS, PROPERTIES and META dictionaries."""
import importlib
import json
import os
import pkgutil

COMPONENTS = {}
PROPERTIES = {}
META = {}

_here = os.path.join(os.path.dirname(os.path.abspath(__file__)), "reg")
for _m in sorted(pkgutil.iter_modules([_here]), key=lambda m: m.name):
    if _m.name.startswith("_"):
        continue
    mod = importlib.import_module("checks.reg." + _m.name)
    COMPONENTS.update(getattr(mod, "COMPONENTS", {}))
    for k, v in getattr(mod, "PROPERTIES", {}).items():
        v = dict(v)
        v.setdefault("coq_files", ["Properties/%s.v" % k])
        if k not in PROPERTIES:
            PROPERTIES[k] = v
        else:  # several groups contribute parts of one property: merge
            old = PROPERTIES[k]
            old["components"] = old["components"] + [c for c in v["components"] if c not in old["components"]]
            old["coq_files"] = old["coq_files"] + [f for f in v["coq_files"] if f not in old["coq_files"]]
            old["rule"] = old.get("rule", "") + " || " + v.get("rule", "")
            old["modelled_not_verified"] = old.get("modelled_not_verified", []) + v.get("modelled_not_verified", [])
    for k, v in getattr(mod, "META", {}).items():
        if k not in META:
            META[k] = dict(v)
        else:
            for f in ("text", "note", "technique"):
                if v.get(f) and v[f] not in META[k].get(f, ""):
                    META[k][f] = META[k].get(f, "") + " || " + v[f]

# only properties listed in checks/ready.txt are claimed in MANIFEST.json (groups under construction are not)
_ready = os.path.join(os.path.dirname(os.path.abspath(__file__)), "ready.txt")
READY = [l.strip() for l in open(_ready) if l.strip() and not l.startswith("#")] if os.path.exists(_ready) else sorted(PROPERTIES)

ALL_IDS = [json.loads(l)["id"] for l in open(os.path.join(os.path.dirname(os.path.abspath(__file__)), "..", "properties.jsonl"))]
NOT_APPLICABLE = [
    {"property_id": p, "reason": "machinery under construction in this session: not yet claimed (the technique applies; see DESIGN.md section 4 %s)" % p}
    for p in ALL_IDS if p not in READY
]
NOTES = ("Every claimed property is decided by theorems in coq/Properties/<id>.v (statements only, each closed by `exact`, each followed by "
         "Print Assumptions) about models in coq/, tied to /repo's current working tree by bin/check's correspondence run. See DESIGN.md.")
