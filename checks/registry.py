"""Registry of components (model + harness command) and properties."""

COMPONENTS = {
    "vv": {
        "coq_run_module": "Cluster.VVRun",
        "accessors": {"internal/cluster/xv_acc_verif.go": "acc/cluster/xv_acc_verif.go"},
        "what": "cluster.VersionVector: Compare/Merge/Increment/Compact/PruneWithMax/Get/Write/Read vs Cluster/VV.v",
    },
}

PROPERTIES = {
    "C16": {
        "components": ["vv"],
        "rule": ("exhaustive: all 64 vectors over nodes {a,b,c} with entries {absent,0,1,2} - every unary op and every ordered pair "
                 "(Compare, Merge) is compared with the model, triples are checked for the algebraic laws on the implementation; "
                 "random: names of length 0..259 (invalid ones included), counters from {0,1,2,3,max-1,max,max+1,2^64-1,random}; "
                 "truncated/corrupted/garbage encodings through the reader. non-trivial = at least one operand non-empty "
                 "(or an error outcome); distinct = distinct input terms"),
        "modelled_not_verified": [
            "Go map[string]uint64 = finite map (gmap); map iteration order is irrelevant to every modelled result",
            "'operations never modify their operands' is vacuous in the functional model: decided on the implementation only (operand snapshots around every call)",
            "AtomicVersionVector (atomic.Value wrapper) is not modelled",
        ],
    },
}
