"""Common machinery of /verif/bin/check.

A *component* is one executable Coq model (`run_<c> : tm -> tm`, extracted to OCaml) plus one Go
harness command (`harness/cmd/<c>`) that drives the real code in /repo's working tree (built with an
overlay of add-only accessor files / instrumented copies) and writes `input<TAB>observed output`
cases and implementation-side monitor hits.  A *property* is a Properties/Cxx.v theorem file plus the
components that tie its models to the code.
"""
import hashlib
import json
import os
import re
import shutil
import subprocess
import sys
import time

VERIF = os.path.dirname(os.path.dirname(os.path.abspath(__file__)))
REPO = os.environ.get("VERIF_REPO", "/repo")
COQ = os.path.join(VERIF, "coq")
BUILD = os.path.join(VERIF, "build")
HARNESS = os.path.join(VERIF, "harness")
GOENV = dict(os.environ, GOFLAGS="-mod=mod", GOPROXY="off", CGO_ENABLED=os.environ.get("CGO_ENABLED", "0"))
GOENV.pop("GOSUMDB", None)
GOENV.pop("GOTOOLCHAIN", None)

FORBIDDEN = re.compile(r"\b(Admitted|admit|Axiom|Axioms|Parameter|Parameters|Conjecture|Hypothesis|Variable)\b|Unset\s+Guard|bypass_check|Admit\s+Obligations|type-in-type|impredicative-set")


def sh(cmd, cwd=None, timeout=None, env=None, stdin=None):
    """run; returns (rc, stdout+stderr). rc=124 on timeout."""
    try:
        p = subprocess.run(cmd, cwd=cwd, env=env, input=stdin, stdout=subprocess.PIPE, stderr=subprocess.STDOUT,
                           timeout=timeout, shell=isinstance(cmd, str), text=True, errors="replace")
        return p.returncode, p.stdout
    except subprocess.TimeoutExpired as e:
        out = e.stdout or ""
        if isinstance(out, bytes):
            out = out.decode(errors="replace")
        return 124, out + "\n[timeout after %ss]" % timeout


# ------------------------------------------------------------------ Coq

def coq_makefile():
    vs = []
    for root, _, files in os.walk(COQ):
        rel = os.path.relpath(root, COQ)
        if rel.startswith("Extract") or rel.startswith("Scratch"):
            continue
        for f in sorted(files):
            if f.endswith(".v"):
                vs.append(os.path.normpath(os.path.join(rel, f)))
    vs.sort()
    stamp = os.path.join(COQ, ".Makefile.coq.list")
    want = "\n".join(vs)
    have = open(stamp).read() if os.path.exists(stamp) else None
    if want != have or not os.path.exists(os.path.join(COQ, "Makefile.coq")):
        rc, out = sh(["coq_makefile", "-f", "_CoqProject", "-o", "Makefile.coq"] + vs, cwd=COQ, timeout=120)
        if rc != 0:
            raise RuntimeError("coq_makefile failed: " + out)
        open(stamp, "w").write(want)
        # the dependency file is rebuilt by make only for .v files newer than it: files copied in with old timestamps
        # would be compiled without their dependencies
        for dep in (".Makefile.coq.d", "Makefile.coq.d"):
            if os.path.exists(os.path.join(COQ, dep)):
                os.remove(os.path.join(COQ, dep))


def coq_make(targets, timeout=1500):
    """full .vo build of the given targets (and their dependencies)"""
    coq_makefile()
    rc, out = sh(["make", "-f", "Makefile.coq", "-j16"] + targets, cwd=COQ, timeout=timeout)
    return rc, out


def scan_forbidden(only=None):
    """scan the development for forbidden constructs. only = list of files (relative to coq/) to restrict
    the scan to (the dependency closure of one property); None = everything."""
    hits = []
    paths = []
    if only is not None:
        paths = [os.path.join(COQ, f) for f in only if os.path.exists(os.path.join(COQ, f))]
    else:
        for root, _, files in os.walk(COQ):
            for f in files:
                if f.endswith(".v"):
                    paths.append(os.path.join(root, f))
    for p in sorted(paths):
        txt = open(p, errors="replace").read()
        code = strip_comments(txt)
        in_section = 0
        for ln, line in enumerate(code.split("\n"), 1):
            if re.match(r"\s*Section\b", line):
                in_section += 1
            if re.match(r"\s*End\b", line) and in_section > 0:
                in_section -= 1
            m = FORBIDDEN.search(line)
            if m:
                w = m.group(1)
                if w in ("Variable", "Hypothesis") and in_section > 0:
                    continue
                hits.append("%s:%d: %s" % (os.path.relpath(p, COQ), ln, line.strip()[:120]))
    return hits


def strip_comments(txt):
    out = []
    depth = 0
    i = 0
    n = len(txt)
    while i < n:
        if txt.startswith("(*", i):
            depth += 1
            i += 2
        elif txt.startswith("*)", i) and depth > 0:
            depth -= 1
            i += 2
        else:
            if depth == 0:
                out.append(txt[i])
            elif txt[i] == "\n":
                out.append("\n")
            i += 1
    return "".join(out)


def check_properties_file(prop, files=None):
    """compile the property's theorem file(s) (after their dependencies) and collect theorems and assumptions.
    files: list of paths relative to coq/ (default Properties/<prop>.v); results are merged."""
    files = files or ["Properties/%s.v" % prop]
    res = {"ok": True, "theorems": [], "assumptions": {}, "output": "", "examples": [],
           "cmd": "cd coq && make -f Makefile.coq -j16 %s && for f in %s; do coqc -Q . Vivid $f; done" % (
               " ".join(f[:-2] + ".vo" for f in files), " ".join(files))}
    for vfile in files:
        r = _check_one_properties_file(vfile)
        res["theorems"] += r["theorems"]
        res["examples"] += r.get("examples", [])
        res["assumptions"].update(r["assumptions"])
        if not r["ok"]:
            res["ok"] = False
            res["failed_stage"] = "%s: %s" % (vfile, r.get("failed_stage"))
            res["output"] += r.get("output", "")
    return res


def _check_one_properties_file(vfile):
    res = {"ok": False, "theorems": [], "assumptions": {}, "output": ""}
    src = open(os.path.join(COQ, vfile)).read()
    code = strip_comments(src)
    thms = re.findall(r"^\s*(?:Theorem|Lemma|Corollary)\s+([A-Za-z0-9_']+)", code, re.M)
    res["theorems"] = thms
    res["examples"] = re.findall(r"^\s*Example\s+([A-Za-z0-9_']+)", code, re.M)
    printed = re.findall(r"Print Assumptions\s+([A-Za-z0-9_']+)\s*\.", code)
    missing = [t for t in thms if t not in printed]
    rc, out = coq_make([vfile[:-2] + ".vo"])
    if rc != 0:
        res["output"] = out[-4000:]
        res["failed_stage"] = "make"
        return res
    rc, out = sh(["coqc", "-Q", ".", "Vivid", vfile], cwd=COQ, timeout=900)
    res["output"] = out[-6000:]
    if rc != 0:
        res["failed_stage"] = "coqc"
        return res
    blocks = re.split(r"(?m)^(?=Closed under the global context|Axioms:)", out)
    blocks = [b.strip() for b in blocks if b.strip().startswith(("Closed under", "Axioms:"))]
    for name, blk in zip(printed, blocks):
        res["assumptions"][name] = " ".join(blk.split())
    if len(blocks) != len(printed):
        res["failed_stage"] = "assumption blocks %d != prints %d" % (len(blocks), len(printed))
        return res
    if missing:
        res["failed_stage"] = "theorems without Print Assumptions: " + ",".join(missing)
        return res
    # theorems of a Properties file are statements closed by a single [exact]; Examples may use tactics
    thm_bad = []
    for m in re.finditer(r"(?:Theorem|Lemma|Corollary)\s+([A-Za-z0-9_']+).*?Proof\.(.*?)(Qed|Defined)\.", code, re.S):
        body = m.group(2).strip()
        if not re.fullmatch(r"exact\s.*\.", body, re.S) or ";" in body:
            thm_bad.append(m.group(1))
    if thm_bad:
        res["failed_stage"] = "theorem proofs not closed by a single exact: " + ",".join(thm_bad)
        return res
    res["ok"] = True
    return res


def run_pregen(P):
    """run the property's translators (commands relative to /verif) with VERIF_REPO set; returns a log"""
    log = []
    for cmd in P.get("pregen", []):
        env = dict(GOENV, VERIF_REPO=REPO)
        rc, out = sh(cmd, cwd=VERIF, timeout=600, env=env)
        log.append({"cmd": cmd, "rc": rc, "out": out[-2000:]})
    return log


# ------------------------------------------------------------------ extraction + OCaml driver

def file_hash(paths):
    h = hashlib.sha256()
    for p in paths:
        h.update(p.encode())
        try:
            h.update(open(p, "rb").read())
        except OSError:
            h.update(b"<missing>")
    return h.hexdigest()


IMPORT_RE = re.compile(r"From\s+Vivid\s+Require\s+(?:Import\s+|Export\s+)?((?:[A-Za-z_][\w']*(?:\.[A-Za-z_][\w']*)*\s*)+)\.(?=\s|$)")


def vivid_imports(txt):
    mods = []
    for m in IMPORT_RE.finditer(strip_comments(txt)):
        mods += m.group(1).split()
    return mods


def coq_dep_closure(vfile):
    """transitive Vivid.* dependencies of a .v file (paths relative to COQ)"""
    seen = []
    todo = [vfile]
    while todo:
        f = todo.pop()
        if f in seen or not os.path.exists(os.path.join(COQ, f)):
            continue
        seen.append(f)
        for mod in vivid_imports(open(os.path.join(COQ, f)).read()):
            todo.append(mod.replace(".", "/") + ".v")
    return seen


def build_model(comp, spec):
    """extract run_<comp> and link it with the generic driver; returns (path or None, log)"""
    d = os.path.join(BUILD, "extract", comp)
    os.makedirs(d, exist_ok=True)
    xfile = os.path.join(COQ, "Extract", "X_%s.v" % comp)
    deps = [os.path.join(COQ, p) for p in coq_dep_closure("Extract/X_%s.v" % comp)]
    driver = os.path.join(VERIF, "ocaml", "modelrun.ml")
    hsh = file_hash(sorted(deps) + [driver])
    binp = os.path.join(d, "modelrun_%s" % comp)
    stamp = os.path.join(d, "stamp")
    if os.path.exists(binp) and os.path.exists(stamp) and open(stamp).read() == hsh:
        return binp, "cached"
    # make the model's dependencies
    txt = open(xfile).read()
    targets = [mod.replace(".", "/") + ".vo" for mod in vivid_imports(txt)]
    rc, out = coq_make(targets)
    if rc != 0:
        return None, "model does not compile:\n" + out[-3000:]
    rc, out = sh(["coqc", "-Q", COQ, "Vivid", "-o", os.path.join(d, "X_%s.vo" % comp), xfile], cwd=d, timeout=900)
    if rc != 0:
        return None, "extraction failed:\n" + out[-3000:]
    mlname = "%s_model" % comp
    open(os.path.join(d, "model.ml"), "w").write("include %s\nlet run = %s\n" % (mlname.capitalize(), spec.get("run", "run_" + comp)))
    shutil.copy(driver, os.path.join(d, "modelrun.ml"))
    rc, out = sh(["ocamlfind", "ocamlopt", "-O3", "-w", "-a", "-package", "zarith", "-linkpkg",
                  mlname + ".mli", mlname + ".ml", "model.ml", "modelrun.ml", "-o", binp], cwd=d, timeout=900)
    if rc != 0:
        return None, "ocaml build failed:\n" + out[-3000:]
    open(stamp, "w").write(hsh)
    return binp, "built"


# ------------------------------------------------------------------ Go harness

def go_prepare(workdir):
    """a go.mod/go.sum pair outside the harness tree whose `replace` points at the tree under test"""
    mod = open(os.path.join(HARNESS, "go.mod")).read().replace("=> /repo", "=> " + REPO)
    modfile = os.path.join(workdir, "go.mod")
    open(modfile, "w").write(mod)
    src = os.path.join(REPO, "go.sum")
    if os.path.exists(src):
        shutil.copy(src, os.path.join(workdir, "go.sum"))
    return modfile


def repo_tag():
    return "" if REPO == "/repo" else "_" + hashlib.sha256(REPO.encode()).hexdigest()[:8]


def build_go(comp, spec, workdir):
    """build harness/cmd/<comp> against /repo's working tree with the component's overlay"""
    modfile = go_prepare(workdir)
    os.makedirs(os.path.join(BUILD, "go"), exist_ok=True)
    overlay = {}
    for rel, src in spec.get("accessors", {}).items():
        overlay[os.path.join(REPO, rel)] = os.path.join(HARNESS, src)
    log = ""
    instr = spec.get("instrument")
    if instr:
        idir = os.path.join(workdir, "instr_" + comp)
        os.makedirs(idir, exist_ok=True)
        tool = os.path.join(BUILD, "go", "xv_instr")
        rc, out = sh(["go", "build", "-modfile", modfile, "-o", tool, "./instr"], cwd=HARNESS, env=GOENV, timeout=600)
        if rc != 0:
            return None, "instrumenter does not build:\n" + out[-3000:]
        for rel in instr["files"]:
            dst = os.path.join(idir, rel.replace("/", "__"))
            rc, out = sh([tool, "-profile", instr["profile"], "-in", os.path.join(REPO, rel), "-out", dst], timeout=120)
            log += out
            if rc != 0:
                return None, "instrumentation of %s failed:\n%s" % (rel, out[-3000:])
            overlay[os.path.join(REPO, rel)] = dst
    ovp = os.path.join(workdir, "overlay_%s.json" % comp)
    json.dump({"Replace": overlay}, open(ovp, "w"))
    binp = os.path.join(BUILD, "go", "xv_" + comp + repo_tag())
    cmd = ["go", "build", "-modfile", modfile, "-tags", "verif", "-overlay", ovp, "-o", binp]
    if spec.get("race"):
        cmd.insert(2, "-race")
    env = dict(GOENV)
    if spec.get("race"):
        env["CGO_ENABLED"] = "1"
    cmd.append("./cmd/" + spec.get("cmd", comp))
    rc, out = sh(cmd, cwd=HARNESS, env=env, timeout=1200)
    if rc != 0:
        if spec.get("public_api_fallback"):
            # the add-only accessors (or the overlay) no longer compile against the tree under test: build the command
            # WITHOUT the verif tag and without the overlay - its public-API tier (files without the tag) keeps searching
            # for a failing input; the caller reports the state distinctly (accessor mismatch)
            cmd2 = ["go", "build", "-modfile", modfile, "-o", binp, "./cmd/" + spec.get("cmd", comp)]
            rc2, out2 = sh(cmd2, cwd=HARNESS, env=env, timeout=1200)
            if rc2 == 0:
                return binp, "ACCESSOR-MISMATCH: built without the verif accessors; the build with them failed:\n" + out[-4000:]
            out += "\npublic-API fallback build failed too:\n" + out2[-2000:]
        return None, "harness does not build against the current tree:\n" + out[-4000:]
    return binp, log


# ------------------------------------------------------------------ terms (python side: Coq literal printer)

def parse_term(s):
    pos = 0
    n = len(s)

    def term():
        nonlocal pos
        while pos < n and s[pos] == " ":
            pos += 1
        c = s[pos]
        if c == "(":
            pos += 1
            items = []
            while True:
                while pos < n and s[pos] == " ":
                    pos += 1
                if s[pos] == ")":
                    pos += 1
                    return ("L", items)
                items.append(term())
        if c == "#":
            pos += 1
            st = pos
            while pos < n and s[pos] in "0123456789abcdef":
                pos += 1
            return ("B", bytes.fromhex(s[st:pos]))
        st = pos
        while pos < n and s[pos] in "0123456789abcdefABCDEF":
            pos += 1
        return ("N", int(s[st:pos], 16))
    return term()


def coq_term(t):
    k, v = t
    if k == "N":
        return "(TN %d)" % v
    if k == "B":
        return "(TB [%s])" % "; ".join(str(b) for b in v)
    return "(TL [%s])" % "; ".join(coq_term(x) for x in v)


def vm_crosscheck(comp, spec, pairs, workdir):
    """re-evaluate a sample of cases with vm_compute inside coqc: the kernel's evaluator must produce
    the same outputs as the extracted OCaml model. pairs = [(input, model_output)]"""
    if not pairs:
        return True, "no cases"
    mod = spec["coq_run_module"]
    run = spec.get("run", "run_" + comp)
    body = ";\n  ".join("(%s, %s)" % (coq_term(parse_term(i)), coq_term(parse_term(o))) for i, o in pairs)
    src = ("From Coq Require Import List NArith.\nImport ListNotations.\nFrom Vivid Require Import Base.Tm %s.\nLocal Open Scope N_scope.\n"
           "Definition cases : list (tm * tm) := [\n  %s ].\n"
           "Definition verdict := Eval vm_compute in (forallb (fun p => tm_eqb (%s (fst p)) (snd p)) cases).\nPrint verdict.\n") % (mod, body, run)
    p = os.path.join(workdir, "xcheck_%s.v" % comp)
    open(p, "w").write(src)
    rc, out = sh(["coqc", "-Q", COQ, "Vivid", "-o", os.path.join(workdir, "xcheck_%s.vo" % comp), p], cwd=workdir, timeout=600)
    ok = rc == 0 and re.search(r"verdict\s*=\s*true", out) is not None
    return ok, out[-1500:]


# ------------------------------------------------------------------ running one component

class CompResult:
    def __init__(self, comp):
        self.comp = comp
        self.built = True
        self.build_log = ""
        self.report = {}
        self.monitors = []
        self.mismatches = []
        self.total = 0
        self.crash = None
        self.xcheck = None
        self.xcheck_n = 0
        self.wall = 0.0
        self.accessor_mismatch = None   # build log when the component runs its public-API tier only (see build_go)


def run_component(comp, spec, tier, seed, workdir, extra_args=None, n_xcheck=25):
    t0 = time.time()
    r = CompResult(comp)
    model, mlog = build_model(comp, spec)
    if model is None:
        r.built = False
        r.build_log = mlog
        r.wall = time.time() - t0
        r.broken = "model"
        return r
    binp, glog = build_go(comp, spec, workdir)
    if binp is None:
        r.built = False
        r.build_log = glog
        r.wall = time.time() - t0
        r.broken = "harness-build"
        return r
    if glog.startswith("ACCESSOR-MISMATCH"):
        r.accessor_mismatch = glog
    cases = os.path.join(workdir, "cases_%s.txt" % comp)
    report = os.path.join(workdir, "report_%s.json" % comp)
    for p in (cases, report):
        if os.path.exists(p):
            os.remove(p)
    cmd = [binp, "-seed", str(seed), "-tier", tier, "-out", cases, "-report", report] + list(extra_args or []) + list(spec.get("args", {}).get(tier, []))
    tmo = spec.get("timeout", {}).get(tier, 600 if tier == "quick" else 3600)
    pre = spec.get("ulimit_v")
    if pre:
        cmd = ["bash", "-c", "ulimit -v %d; exec \"$@\"" % pre, "x"] + cmd
    env = dict(os.environ)
    env.update(spec.get("env", {}))
    rc, out = sh(cmd, cwd=workdir, timeout=tmo, env=env)
    r.stdout = out[-6000:]
    if os.path.exists(report):
        try:
            r.report = json.load(open(report))
        except Exception as e:  # noqa
            r.report = {}
    r.monitors = list(r.report.get("monitors") or [])
    if rc not in (0, 3):
        r.crash = {"rc": rc, "output": out[-6000:]}
    if os.path.exists(cases) and os.path.getsize(cases) > 0:
        rc2, out2 = sh([model], stdin=open(cases).read(), timeout=tmo)
        m = re.search(r"DONE total=(\d+) mismatches=(\d+)", out2)
        if not m:
            r.crash = r.crash or {"rc": rc2, "output": "model driver failed: " + out2[-3000:]}
        else:
            r.total = int(m.group(1))
            for line in out2.split("\n"):
                if line.startswith("MISMATCH"):
                    parts = line.split("\t")
                    r.mismatches.append({"line": parts[0].split()[1], "input": parts[1], "model": parts[2], "impl": parts[3] if len(parts) > 3 else ""})
        # cross-check a sample inside Coq
        if n_xcheck and m:
            lines = [l for l in open(cases).read().split("\n") if l and not l.startswith(";")]
            step = max(1, len(lines) // n_xcheck)
            sample = [l.split("\t")[0] for l in lines[::step][:n_xcheck] if len(l) < 20000]
            rc3, out3 = sh([model, "-eval"], stdin="\n".join(sample) + "\n", timeout=600)
            outs = [l for l in out3.split("\n") if l and not l.startswith("DONE")]
            if len(outs) == len(sample):
                pairs = [(i, o) for i, o in zip(sample, outs) if not o.startswith(("PARSE", "MODEL-"))]
                ok, log = vm_crosscheck(comp, spec, pairs, workdir)
                r.xcheck = ok
                r.xcheck_n = len(pairs)
                if not ok:
                    r.xcheck_log = log
    r.wall = time.time() - t0
    return r
