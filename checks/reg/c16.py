"""C16 — version vectors."""

COMPONENTS = {
    "vv": {
        "coq_run_module": "Cluster.VVRun",
        "accessors": {"internal/cluster/xv_acc_verif.go": "acc/cluster/xv_acc_verif.go"},
        "what": "cluster.VersionVector: Compare/Merge/Increment/Compact/PruneWithMax/Get/Write/Read vs Cluster/VV.v",
    },
}

PROPERTIES = {
    "C16": {
        "components": ["vv"],
        "rule": ("exhaustive: all 64 vectors over nodes {a,b,c} with entries {absent,0,1,2} - every unary op and every ordered pair "
                 "(Compare, Merge) is compared with the model, triples are checked for the algebraic laws on the implementation; "
                 "random: names of length 0..259 (invalid ones included), counters from {0,1,2,3,max-1,max,max+1,2^64-1,random}; "
                 "truncated/corrupted/garbage encodings through the reader. non-trivial = at least one operand non-empty "
                 "(or an error outcome); distinct = distinct input terms"),
        "modelled_not_verified": [
            "Go map[string]uint64 = finite map (gmap); map iteration order is irrelevant to every modelled result",
            "'operations never modify their operands' is vacuous in the functional model: decided on the implementation only (operand snapshots around every call)",
            "AtomicVersionVector (atomic.Value wrapper) is not modelled",
        ],
    },
}

META = {
    "C16": {
        "text": "22 kernel-checked theorems about the Gallina model of VersionVector (Compare = pointwise order of counters with absent=0; reflexive/converse/antisymmetric/transitive; Merge commutative, associative, idempotent as maps and the least upper bound; Increment strictly After with exact error characterisation; byte-level Read(Write v ++ rest) = (v, rest) for every vector within the caps), for all vectors over any node-id set. The model is tied to the Go code on every run by a differential check: exhaustive over the 64-vector small domain (all ops, all pairs) plus seeded random vectors with extreme counters and invalid addresses plus truncated/corrupted encodings; algebraic laws and operand immutability are also evaluated directly on the implementation.",
        "design_ref": "DESIGN.md §4 C16",
        "note": "Trusted: Coq kernel + vm_compute; ExtrOcamlBasic extraction (cross-checked by vm_compute on a sample each run); the harness; Go maps modelled as finite maps. 'Operands are never modified' is decided on the implementation only (vacuous in a functional model). AtomicVersionVector not modelled.",
        "technique": "Coq proof (induction / finite-map extensionality) over a hand-written model + differential correspondence check against the Go code",
    },
}
