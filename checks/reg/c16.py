"""C16 — version vectors."""

COMPONENTS = {
    "vv": {
        "coq_run_module": "Cluster.VVRun",
        "accessors": {"internal/cluster/xv_acc_verif.go": "acc/cluster/xv_acc_verif.go",
                      "internal/cluster/xv_vvheap_verif.go": "acc/cluster/xv_vvheap_verif.go"},
        "what": ("cluster.VersionVector: Compare/Merge/Increment/Compact/PruneWithMax/Get/Write/Read vs the functional model Cluster/VV.v "
                 "(ops 0-7); whole histories over one family of vector objects (aliasing classes of the map objects, dirty flag, cache "
                 "field, SortedEntries, the caller's slice of PruneWithMax) vs the HEAP-level model Cluster/VVHeap.v (op 8); "
                 "AtomicVersionVector: sequential scripts (Load/Store/CompareAndSwap with arbitrary, current and stale old/Increment) vs the heap model "
                 "of the pointer-based wrapper (op 9); really concurrent Increment loops (N goroutines x M calls) vs the small-step machine "
                 "Cluster/VVAtomic.v (op 10: final vector and per-node successes/errors, schedule independent)"),
    },
}

PROPERTIES = {
    "C16": {
        "components": ["vv"],
        "rule": ("exhaustive: all 64 vectors over nodes {a,b,c} with entries {absent,0,1,2} - every unary op and every ordered pair "
                 "(Compare, Merge) is compared with the model, triples are checked for the algebraic laws on the implementation; "
                 "random: names of length 0..259 (invalid ones included), counters from {0,1,2,3,max-1,max,max+1,2^64-1,random}; "
                 "truncated/corrupted/garbage encodings through the reader; boundaries (every tier): counters "
                 "{0,1,max-2,max-1,max,max+1,2^64-2,2^64-1} x addresses {1 byte, 256 bytes, typical} through Increment, the writer, the "
                 "reader and Increment-then-wire; 65534/65535/65536 entries through writer and reader, headers announcing "
                 "{0,1,65534,65535,65536,65537,2^31,2^32-1} entries; sessions: 150 (thorough 5000) histories of 6-19 steps over one "
                 "family of objects (Increment incl. invalid address and overflow, Merge incl. self-merge, Clone, Write+Read, Compact, "
                 "SortedEntries, PruneWithMax with a caller slice longer than the limit, Compare), ONE case per history holding every "
                 "step's observation and the final state of every object; atomic: 120 (thorough 3000) sequential scripts of 3-10 calls on one "
                 "AtomicVersionVector, every call under recover; 40 short + 3 long (thorough 600 + 20) concurrent runs of 2-8 goroutines x "
                 "up to 43 (long: 400) Increment calls on nodes {a,b,c,''}, initial counters incl. max-3..max so that the cap is hit "
                 "mid-run. non-trivial = at least one operand non-empty (or an error outcome, or "
                 "a session/script); distinct = distinct input terms"),
        "modelled_not_verified": [
            "Go map[string]uint64 = finite map (gmap); a range loop visits every entry exactly once in an order chosen by the runtime: the heap-model theorems hold for EVERY such order (oracle iter with iter_ok), the executable instance alternates between two orders",
            "the Go heap as modelled in Cluster/VVHeap.v: make allocates a location never used before; m[k]=c changes one map object; append into spare capacity writes one cell of the shared backing array; sort.Slice/sort.Strings permute the cells of one array in place; a struct copy shares map and slice (modelled, tied by the aliasing classes the harness observes through reflect pointers)",
            "sizeHint and the capacity arguments of make, the growth factor of append beyond the capacity (only append([]string(nil), xs...) reallocates here), String/Nodes/MaxCounter/TotalCount (read-only loops) are not modelled",
            "AtomicVersionVector: atomic.Pointer Load / Store / CompareAndSwap are sequentially consistent single steps (M1); the concurrent machine (Cluster/VVAtomic.v) interleaves Increment loops at exactly these steps and keeps vector VALUES in the boxes (that the heap programs compute these values and never write an existing object is proved separately in VVHeapProofs.v); callers other than Increment loops (Store, bare CompareAndSwap) are modelled sequentially only; the real concurrent runs use an uncontrolled schedule and are compared on the schedule-independent result",
            "messages.Writer/Reader are the byte-level primitives of Codec/Prim.v (put_u32, put_lp4, put_u64); partial output of a failing WriteVersionVector is not modelled (only the error)",
        ],
    },
}

META = {
    "C16": {
        "text": "58 kernel-checked theorems. (1) The functional model of VersionVector (Cluster/VV.v): Compare = pointwise order of counters with absent=0; reflexive/converse/antisymmetric/transitive; Merge commutative, associative, idempotent as maps and the least upper bound; Increment strictly After with exact error characterisation; byte-level Read(Write v ++ rest) = (v, rest) for every vector within the caps. (2) NEW - a HEAP-level model (Cluster/VVHeap.v): a vector is a struct value whose map and cached slice are references into a shared heap, every method is a heap program (make / m[k]=c / range in an arbitrary order / append into spare capacity / in-place sort), and for every heap, every live operand and every map-iteration order each method (a) refines the functional model on the abstract values and (b) writes only into locations it allocated itself (C16_heap_*); by induction over ALL histories of operations on one family of objects: every vector keeps its abstract value for ever and every observer (SortedEntries, Write, Compare) run on it later returns what the functional model computes (C16_operands_never_modified, C16_session_refines), and the cache branch of SortedEntries is dead code (C16_cache_never_filled). (3) NEW - caps on both sides: the reader accepts exactly the vectors within the caps, which are exactly the API-buildable vectors of at most 65535 entries; counters producible by Increment = 1..2^63-1, counters accepted by the wire = 0..2^63-1; exact writer acceptance; wire format with strictly increasing addresses; the entry cap is enforced on the wire only (C16_roundtrip_beyond_entry_cap_refuted). (4) NEW - AtomicVersionVector (pointer-based since the repair 2f67bea, found by this check): sequentially CompareAndSwap swaps iff the stored value is Equal to old and then stores exactly new, Increment returns the Increment of the stored value, strictly After it, and stores it, errors leave the wrapper unchanged (C16_atomic_cas, C16_atomic_increment); concurrently, for ANY number of Increment loops and ANY schedule of their load / pointer-load / pointer-CAS steps, the stored vector is the initial one plus exactly one per successful call on each node - no lost update - with the successful CAS as linearisation point (C16_atomic_no_lost_update, C16_atomic_cas_step, C16_atomic_only_cas_writes, C16_atomic_error_step). The models are tied to the Go code on every run: exhaustive small domain + random + boundary cases against the functional model, whole aliasing sessions and sequential atomic scripts against the heap model, real concurrent Increment runs against the small-step machine, algebraic laws / operand immutability / Increment-then-wire evaluated directly on the implementation.",
        "design_ref": "DESIGN.md §4 C16, notes/update_vv.md",
        "note": "Trusted: Coq kernel + vm_compute; ExtrOcamlBasic extraction (cross-checked by vm_compute on a sample each run); the harness; the heap model's primitives (allocation freshness, one-object stores, struct copies share references) and Go maps as finite maps iterated in an arbitrary order. 'Operands are never modified' is now a theorem of the heap model for all histories and all iteration orders AND decided on the implementation (operand snapshots through every observer after every step). AtomicVersionVector: sequential heap model + concurrent small-step machine of Increment loops (atomic pointer operations assumed sequentially consistent).",
        "technique": "Coq proof (induction / finite-map extensionality / frame + refinement over a heap model) over hand-written models + differential correspondence check against the Go code",
    },
}
