"""C01 — mailbox handshake (micro-step model, lock-step traces of the instrumented real mailbox)."""

COMPONENTS = {
    "mailbox": {
        "coq_run_module": "Mailbox.MbRun",
        "accessors": {"internal/mailbox/xv_mb_verif.go": "acc/mailbox/xv_mb_verif.go"},
        "instrument": {"profile": "mailbox", "files": ["internal/mailbox/unbounded_mailbox.go"]},
        "what": "real UnboundedMailbox, instrumented from the current source (a scheduling point before every atomic op, queue op, handler call, go statement), run under the controlled scheduler; every step's (label, status, paused, num, systemNum, |sysq|, |userq|, |log|) replayed on Mailbox/MbModel.v",
    },
}

PROPERTIES = {
    "C01": {
        "components": ["mailbox"],
        "rule": ("schedules of the real mailbox under the controlled scheduler: depth-first enumeration with a preemption bound over 11 hand-picked "
                 "configurations (senders of user/system messages, Pause/Resume callers, handlers that send to / pause / resume their own mailbox) "
                 "plus seeded random configurations (2..7 operations, ring sizes 1,2,4,8) under random and sticky schedulers; one case = one complete "
                 "schedule, compared step by step with the model. distinct = distinct (configuration, schedule); non-trivial = at least two context switches"),
        "modelled_not_verified": [
            "M1: sync/atomic operations are sequentially consistent; M3: goroutine scheduling = arbitrary interleaving of the instrumented atomic steps",
            "M4: RingQueue Push/Pop are single atomic steps (every access is under the queue's mutex; sequential correctness is C02's theorem)",
            "fair scheduling by the Go runtime (an enabled goroutine eventually runs) for 'eventually handled'",
        ],
    },
}

META = {
    "C01": {
        "text": "Inductive invariants over ALL interleavings of ANY number of sender / Pause / Resume threads of a micro-step Gallina model of the mailbox handshake (single consumer, exactly-once accounting, no lost wake-up, terminal-state theorem, bounded work when nothing may be processed). The model is tied to the code by lock-step replay: the real UnboundedMailbox is re-instrumented from the current source on every run, driven by a controlled scheduler (DFS with preemption bound + random), and every atomic step's label and projected shared state must equal the model's.",
        "design_ref": "DESIGN.md section 4 C01",
        "note": "Trusted: Coq kernel; extraction; AST instrumenter + controlled scheduler (harness/instr, harness/vsched); sequentially consistent atomics (M1), interleaving semantics (M3), linearizable ring queue (M4); fairness of the Go scheduler for liveness.",
        "technique": "Coq proof (inductive invariants of a small-step concurrent machine, all thread populations and schedules) + lock-step correspondence against the instrumented real mailbox under a controlled scheduler",
    },
}

# the mailbox-ordering part of C02 (per-kind FIFO in push order, system-before-user, kill overtakes at most one)
PROPERTIES["C02"] = {
    "components": ["mailbox"],
    "coq_files": ["Properties/C02_mailbox.v"],
    "rule": "mailbox part: the C01 lock-step traces (monitors fifo-user / fifo-system evaluate per-kind FIFO in push order on the real mailbox)",
    "modelled_not_verified": ["mailbox part: M1, M3, M4 as for C01"],
}
META["C02"] = {
    "text": "mailbox part: for every thread population and schedule of the micro-step mailbox model, messages of one kind are handled exactly in push order, a user message is popped only after the system queue was observed empty in the same iteration, and after a system message is pushed at most ONE user message is popped before it (the exact overtaking bound, with a witness schedule).",
    "design_ref": "DESIGN.md section 4 C02", "note": "as C01", "technique": "Coq proof over the C01 micro-step model + the C01 lock-step correspondence",
}
