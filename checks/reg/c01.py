"""C01 — mailbox handshake (micro-step model, lock-step traces of the instrumented real mailbox)."""

COMPONENTS = {
    "mailbox": {
        "coq_run_module": "Mailbox.MbRun",
        "accessors": {"internal/mailbox/xv_mb_verif.go": "acc/mailbox/xv_mb_verif.go",
                      "internal/mailbox/xv_mb_owner_verif.go": "acc/mailbox/xv_mb_owner_verif.go",
                      "internal/queues/xv_ring_verif.go": "acc/queues/xv_ring_verif.go"},
        "instrument": {"profile": "mailbox", "files": ["internal/mailbox/unbounded_mailbox.go"]},
        "what": "real UnboundedMailbox, instrumented from the current source (a scheduling point before every atomic op, queue op, handler call, go statement), run under the controlled scheduler; every step's (label, status, paused, num, systemNum, |sysq|, |userq|, |log|) replayed on Mailbox/MbModel.v",
    },
    "mbfine": {
        "coq_run_module": "Mailbox.MbFineRun",
        "cmd": "mailbox",
        "args": {"quick": ["-fine"], "thorough": ["-fine"]},
        "accessors": {"internal/mailbox/xv_mb_verif.go": "acc/mailbox/xv_mb_verif.go",
                      "internal/mailbox/xv_mb_owner_verif.go": "acc/mailbox/xv_mb_owner_verif.go",
                      "internal/queues/xv_ring_verif.go": "acc/queues/xv_ring_verif.go"},
        "instrument": {"profile": "mbring", "files": ["internal/mailbox/unbounded_mailbox.go", "internal/queues/ring.go"]},
        "what": "real UnboundedMailbox ON TOP OF the real RingQueue, both instrumented from the current source (a scheduling point before every atomic op of either file, before every q.lock.Lock() - enabled only while the mutex is free -, before the handler call, at every go statement), run under the controlled scheduler; every step's (label, status, paused, num, systemNum, |log|, and for both rings head, tail, mod, len, lock bit, slot[head], slot[tail]) and the final buffers replayed on Mailbox/MbFine.v",
    },
}

PROPERTIES = {
    "C01": {
        "components": ["mailbox", "mbfine"],
        "coq_files": ["Properties/C01.v", "Properties/C01_fine.v"],
        # translator: the source-level inventory of synchronisation constructs of ring.go + unbounded_mailbox.go
        # (coq/Generated/MbSyncOps.v), compared with the model's table by the Example C01_fine_sync_inventory
        "pregen": ["bin/gen_syncops"],
        "rule": ("schedules of the real mailbox under the controlled scheduler: depth-first enumeration with a preemption bound over 11 hand-picked "
                 "configurations (senders of user/system messages, Pause/Resume callers, handlers that send to / pause / resume their own mailbox) "
                 "plus seeded random configurations (2..7 operations, ring sizes 1,2,4,8) under random and sticky schedulers, plus large backlogs; one case = one complete "
                 "schedule, compared step by step with the model. Run twice: component mailbox = queue operations atomic (Mailbox/MbModel.v); component mbfine = "
                 "ring.go instrumented as well (scheduling points before q.lock.Lock(), before the atomic add / load of len; 15 configurations incl. growth at every push, "
                 "growth while the cursors are wrapped, initial size 3), every step compared with Mailbox/MbFine.v on both rings' head/tail/mod/len/lock bit/slot[head]/slot[tail] "
                 "and on the full buffers at the end. distinct = distinct (configuration, schedule); non-trivial = at least two context switches"),
        "modelled_not_verified": [
            "M1: sync/atomic operations are sequentially consistent and sync.Mutex gives mutual exclusion; non-atomic accesses to data owned by the mutex holder are merged with the holder's adjacent step; M3: goroutine scheduling = arbitrary interleaving of the instrumented steps",
            "M4 (RingQueue Push/Pop atomic) is NO LONGER assumed: it is the theorem C01_fine_refines_coarse about Mailbox/MbFine.v, where ring.go is modelled step by step; what remains assumed about the queue is M10 (int64 cursors do not wrap) and that a slot holds what was stored in it",
            "IsPaused (a read-only observer of the paused word) and RingQueue.PopMany (no caller) are outside the model; the inventory check lists them as such",
            "fair scheduling by the Go runtime (an enabled goroutine eventually runs) for 'eventually handled'",
        ],
    },
}

META = {
    "C01": {
        "text": ("Inductive invariants over ALL interleavings of ANY number of sender / Pause / Resume threads of a micro-step Gallina model of the mailbox handshake (single consumer, exactly-once accounting, "
                 "no lost wake-up, terminal-state theorem, bounded work when nothing may be processed). Second layer (Properties/C01_fine.v, 16 theorems): the ring queue internal/queues/ring.go is INSIDE the model "
                 "(Mailbox/MbFine.v: mutex, atomic len, head/tail/mod arithmetic, growth with the rotated copy; Pop's emptiness check outside the mutex), every execution of that machine - all initial sizes, "
                 "all populations, all schedules incl. preemptions inside Push/Pop - is proved to be simulated by the coarse machine (forward simulation with stuttering, C01_fine_refines_coarse), so the former "
                 "assumption 'queue operations are atomic' is a theorem under the single-consumer discipline the mailbox itself establishes; consequences stated on the fine machine: one owner also inside Pop, "
                 "no crash (Pop never hands out a nil slot, no zero modulus), ring representation invariant + mutual exclusion at every micro-step, no deadlock on the queue mutexes, exactly once, no lost wake-up, "
                 "terminal theorem, step bound 192(n+1)^2+3, no spin, every execution can finish. The models are tied to the code by lock-step replay: the real UnboundedMailbox (and, for the fine model, the real "
                 "RingQueue under it) is re-instrumented from the current source on every run, driven by a controlled scheduler (DFS with preemption bound + random), and every step's label and projected shared "
                 "state must equal the model's. A translator lists every synchronisation construct of the two source files; the list must equal the model's table (C01_fine_sync_inventory)."),
        "design_ref": "DESIGN.md section 4 C01",
        "note": ("Trusted: Coq kernel; extraction; AST instrumenter + controlled scheduler (harness/instr incl. profile_mbring.go, harness/vsched); the translator harness/cmd/syncops; sequentially consistent atomics and "
                 "mutual exclusion of sync.Mutex (M1), interleaving semantics (M3); fairness of the Go scheduler for liveness. No longer trusted: linearizability of the ring queue (M4) - proved, and refuted without "
                 "the single-consumer discipline (C02_ring_two_consumers_refuted)."),
        "technique": "Coq proof (inductive invariants of a small-step concurrent machine, all thread populations and schedules; forward simulation fine -> coarse) + lock-step correspondence against the instrumented real mailbox and ring queue under a controlled scheduler + source-level inventory of synchronisation operations",
    },
}

# the mailbox-ordering part of C02 (per-kind FIFO in push order, system-before-user, kill overtakes at most one).
# Its lock-step runs are those of the FINE machine (component mbfine: mailbox + ring queue, both instrumented); the
# theorems about the coarse machine apply to it through C01_fine_refines_coarse (Properties/C01_fine.v), and the coarse
# machine's own lock-step runs are C01's component mailbox.
PROPERTIES["C02"] = {
    "components": ["mbfine"],
    "coq_files": ["Properties/C02_mailbox.v"],
    "rule": "mailbox part: the lock-step traces of component mbfine (mailbox + ring queue instrumented; monitors fifo-user / fifo-system evaluate per-kind FIFO in the order of the Pushes' critical sections, c02-user-overtakes-system the priority of system messages, on the real code)",
    "modelled_not_verified": ["mailbox part: M1, M3 as for C01 (M4 is proved: C01_fine_refines_coarse)"],
}
META["C02"] = {
    "text": ("mailbox part: for every thread population and schedule of the micro-step mailbox model, messages of one kind are handled exactly in push order, a user message is popped only after the system queue was "
             "observed empty in the same iteration, and after a system message is pushed at most ONE user message is popped before it (the exact overtaking bound, with a witness schedule); the same FIFO statement "
             "on the fine machine with ring.go inside the model, for every initial size and every growth (C02_fine_fifo_prefix); and the refutation of queue linearizability without the single-consumer discipline "
             "(C02_ring_two_consumers_refuted: two overlapping Pops hand out a nil slot and leave len = -1)."),
    "design_ref": "DESIGN.md section 4 C02", "note": "as C01", "technique": "Coq proof over the C01 micro-step models + the C01 lock-step correspondence",
}
