"""ActorCore group: C03, C05, C06, C08, C09, C19 (the actor runtime under the controlled scheduler)."""

_WHAT = ("the real actor runtime (System, Context.HandleEnvelop and all its handlers, guard, event stream) with the mailbox re-instrumented from the "
         "current source, run under the controlled scheduler with scripted actors; every mailbox-level step (queue insertion, end of Enqueue, Pause/Resume "
         "words, system/user pop, paused load, handler call) is replayed on coq/Actor/Core.v, which must predict the target mailbox and the content of every "
         "enqueue, the message of every handler call, everything user code observes (behaviour invocations with instance and behaviour-stack mode, ActorOf "
         "results), and the final per-actor state (state, zombie, paused, queue lengths, stash length AND stash content in order, children, watchers, "
         "behaviour stack, instance, registry) and event-stream tables (replay entry coq/Actor/CoreRun2.v). Private observations are located by reflection "
         "(name, then role); one that cannot be located in the build under test is listed as unavailable_observations in the report's info and blanked in the "
         "projection on both sides instead of breaking the build")

COMPONENTS = {
    "actor": {
        "coq_run_module": "Actor.CoreRun2", "run": "run_actor2",     # CoreRun's replay + the content of every stash in the final projection
        "accessors": {
            "internal/mailbox/xv_mb_verif.go": "acc/mailbox/xv_mb_verif.go",
            "internal/mailbox/xv_mb_owner_verif.go": "acc/mailbox/xv_mb_owner_verif.go",
            "internal/queues/xv_tail_verif.go": "acc/queues/xv_tail_verif.go",
            "internal/actor/xv_actor_verif.go": "acc/actor/xv_actor_verif.go",
        },
        "instrument": {"profile": "mailbox-obj", "files": ["internal/mailbox/unbounded_mailbox.go"]},
        "what": _WHAT,
    },
}

_RULE = ("scenarios = external API callers + scripted actors (behaviours, supervision decisions, hook outcomes are data): (a) random trees of up to ~8 actors "
         "with tell/tell-self/spawn/kill(poison or not)/panic/stash/unstash/watch/subscribe/publish/become scripts and references obtained from ActorOf, "
         "children, sender, parent and parsed paths, racing external callers; (b) the supervision matrix: decision (6 + invalid) x one-for-one/one-for-all x "
         "failure site (user message at every position of a queued burst, OnLaunch, a child's OnKilled, sibling failure) x restart hooks that may fail x "
         "escalation depth 1..2, with probes afterwards; failure sites 5/6: the SUPERVISOR is in its own graceful stop / supervised graceful restart when the "
         "child's backlog fails; the failing incarnation may Become first; (c) stash scenarios: a worker parks mail (Stash, twice, behind Become), goes through "
         "a supervised failure with every decision / failing restart hooks (zombie) / kill / supervisor failure / a failing message that parked itself, then "
         "Unstash in every API variant (no argument, n < 0, 0, 1.., more than parked; one-by-one draining) from a later message, from the new incarnation's "
         "OnLaunch or from OnKill, traffic sent by the supervisor right after the spawn; (d) death-watch scenarios: 1..3 sibling watchers (+ one outside) "
         "registering through a baton message, twice, unwatching, the target ending by kill / failure (restart keeps watchers) over several rounds with re-spawn; "
         "Become/UnBecome with and without options, panic and ctx.Failed; schedules: random and sticky (few preemptions) choosers of the controlled scheduler, "
         "DFS with preemption bound. one case = one complete run; distinct = distinct (scenario, schedule); non-trivial = at least 3 actors. Implementation-side "
         "monitors (the property evaluated on what the real runtime did): c03-lost-message / c03-duplicated-message (exact per-tag copy accounting: sends + Stash "
         "calls = processed + guard + zombie + dead-letter reports + in a stash), c03-dead-letter-twice; c05-before-launch / never-launched / after-killed, "
         "c05-launch-to-stale-instance / -behaviour (restart OnLaunch at the fresh instance in mode OnReceive); c06-duplicate-onkilled, parent-before-descendant, "
         "c06-watcher-not-notified / c06-parent-not-notified (watchers tracked from the handled Watch/Unwatch requests), c06-subscription-outlives-actor; "
         "c08-failure-not-supervised, c08-strategy-not-consulted / -consulted-twice, c08-directive-mismatch (per handled failure report: consultations of the real "
         "OneForOne/OneForAll strategy object and every directive envelope vs decision and targets, whatever the supervisor's own state); c09-survivor-paused / "
         "-mail / half-stopped; c19-*")

_MNV = [
    "the mailbox handshake (status word, counters, goroutine start) is abstracted in ActorCore: justified by the C01/C02 theorems",
    "registry (sync.Map), event-stream tables and actor-local updates between two mailbox operations are atomic (they contain no scheduling point); M1, M3",
    "futures/Ask, scheduler jobs, remoting and metrics are outside ActorCore (C04, C20, C11-C15)",
    "Go map iteration order (children, watchers, subscribers, one-for-all targets) is a free choice of the model resolved by the observed trace",
    "the decision maker of a strategy is a script (list of answers, exhausted = Stop); the real OneForOneStrategy / OneForAllStrategy objects of supervision_strategy.go are driven with such a scripted decision maker (their unused back-off options are not modelled)",
    "stash theorems: Stash/Unstash are script actions inside an atomic phase; the log of a run's stash operations is read off by re-running run_atomic's recursion (Actor/SpecStash.v), not stored in the model state",
]

PROPERTIES = {
    "C03": {"components": ["actor"], "coq_files": ["Properties/C03.v", "Properties/C03_stash.v", "Properties/C03_copies.v"], "rule": _RULE, "modelled_not_verified": _MNV, "monitor_filter": r"^c03-|^no-quiescence$|^crash$"},
    "C05": {"components": ["actor"], "coq_files": ["Properties/C05.v", "Properties/C05_restart.v"], "rule": _RULE, "modelled_not_verified": _MNV, "monitor_filter": r"^c05-|^crash$"},
    "C06": {"components": ["actor"], "rule": _RULE, "modelled_not_verified": _MNV, "monitor_filter": r"^c06-|^crash$"},
    "C08": {"components": ["actor"], "coq_files": ["Properties/C08.v", "Properties/C08_history.v"], "rule": _RULE, "modelled_not_verified": _MNV, "monitor_filter": r"^c08-|^c09-survivor-paused$|^c09-half-stopped$|^crash$"},   # a directive that is not applied to all its targets shows as a paused / half-stopped survivor
    "C09": {"components": ["actor"], "rule": _RULE, "modelled_not_verified": _MNV, "monitor_filter": r"^c09-|^no-quiescence$|^crash$"},
}

def _meta(what):
    return {
        "text": what + " Theorems are about coq/Actor/Core.v (all scripts, decisions, hook outcomes and schedules); the model is tied to the code by lock-step replay of the real runtime under a controlled scheduler, and the property is also evaluated directly on what the real runtime did (monitors).",
        "design_ref": "DESIGN.md section 4 / Appendix A",
        "note": "Trusted: Coq kernel; extraction; AST instrumenter + controlled scheduler; the abstraction of the mailbox handshake (C01/C02); atomicity of code between two mailbox operations; scripted actors cover user code only as far as the script language goes.",
        "technique": "Coq proof over an executable small-step model of the actor runtime + lock-step correspondence against the real runtime under a controlled scheduler",
    }

META = {
    "C03": _meta("Conservation of user messages (processed / stashed / dead-lettered exactly once; zombie and after-stop exceptions). C03_stash.v: over EVERY event list the stash of every actor is a FIFO that only its owner's own Stash / Unstash calls touch (stash before ++ parked = taken ++ stash after; from the initial state parked = taken ++ still parked): no restart, failed restart, stop, kill, directive, queue operation or other actor adds, drops, duplicates or reorders parked mail; what Unstash takes is re-enqueued into the own mailbox. C03_copies.v: for every thread and every class of user messages, over every event list: pending + issued (Tell / TellSelf / taken by Unstash) = inserted + turned into a dead-letter report at the insertion + still pending (nothing at quiescence); with C03_conservation and the stash history this closes the chain send -> insertion -> handler call -> processed / zombie / dead letter / parked -> un-parked link by link - the equation the monitor c03-lost-message / c03-duplicated-message evaluates on the real runtime."),
    "C05": _meta("Lifecycle grammar per incarnation (OnLaunch first, nothing after own OnKilled, restart starts a new incarnation with OnLaunch at the restarted actor). C05_restart.v: in every reachable state the invocation that follows an actor's own OnKilled is the OnLaunch of the new incarnation, handled in mode 0 (OnReceive, not a behaviour installed by Become) by the instance the restart put in charge (fresh with a provider, same without); the instance changes nowhere else."),
    "C06": _meta("Kill terminates the subtree, children first, each reported once; path released."),
    "C08": _meta("Supervision applies exactly the decided directive to exactly the strategy's targets. C08_history.v: along every run what is left of a supervisor's decision maker is what remains after exactly as many answers as failure reports it handled (also while it is stopping / restarting / a zombie); the next report gets the k-th answer; no other event consumes one."),
    "C09": _meta("No survivor stays paused or half-stopped; queued mail survives restart; zombie behaviour."),
}

PROPERTIES["C19"] = {"components": ["actor"], "coq_files": ["Properties/C19_core.v", "Properties/C19.v"], "rule": _RULE + "; plus event-stream scenarios: 2-4 subscribers under one parent, two event types, subscribe twice / unsubscribe / unsubscribe-all / publish from actors and racing external callers, subscribers dying (poison or not) and being restarted in between",
                     "modelled_not_verified": _MNV + ["publication order per publisher at each subscriber: proved on ActorCore (C19_publisher_order, C19_handled_in_pop_order); the FIFO of the real queues is C02"], "monitor_filter": r"^c19-|^c06-subscription-outlives-actor$|^crash$"}
META["C19"] = _meta("Event stream: table invariants, fan-out = the subscribers at the snapshot, cleanup on death, restart keeps subscriptions (one-step: C19_core.v); over whole histories (C19.v): no entry for a terminated subscriber, nothing published after Unsubscribe / termination is delivered, each snapshot entry exactly one delivery and nobody else, one publisher's events reach a subscriber in publication order.")
