"""ActorCore group: C03, C05, C06, C08, C09 (actor runtime under the controlled scheduler)."""

COMPONENTS = {
    "actor": {
        "coq_run_module": "Actor.CoreRun",
        "accessors": {
            "internal/mailbox/xv_mb_verif.go": "acc/mailbox/xv_mb_verif.go",
            "internal/mailbox/xv_mb_owner_verif.go": "acc/mailbox/xv_mb_owner_verif.go",
            "internal/queues/xv_tail_verif.go": "acc/queues/xv_tail_verif.go",
            "internal/actor/xv_actor_verif.go": "acc/actor/xv_actor_verif.go",
        },
        "instrument": {"profile": "mailbox-obj", "files": ["internal/mailbox/unbounded_mailbox.go"]},
        "what": "the real actor runtime (System, Context.HandleEnvelop and all handlers, guard, event stream) with the mailbox re-instrumented from the current source, run under the controlled scheduler with scripted actors; every mailbox-level step is replayed on coq/Actor/Core.v which must predict the target and content of every enqueue, the message of every handler call, everything user code observes and the final per-actor state",
    },
}

PROPERTIES = {
    "CX": {"components": ["actor"], "coq_files": ["Properties/CX.v"], "rule": "scratch", "modelled_not_verified": []},
}
META = {}
