"""C12 / C13, generic half: the primitive Writer/Reader of internal/messages (writer.go, reader.go)."""

# the buf mode of harness/cmd/reflect reads unexported state of Writer/Reader: every component built from that directory needs the overlay
_ACC = {"internal/messages/xv_buf_verif.go": "acc/messages/xv_buf_verif.go"}

COMPONENTS = {
    "reflect": {
        "coq_run_module": "Codec.BufRun",
        "run": "run_reflect_all",
        "accessors": _ACC,
        "what": "messages.Writer/Reader: every WriteXxx/ReadXxx primitive, Write/Read type switch, writeReflect/readReflect, "
                "WriteFrom/ReadInto on supported values (round trips) vs Codec/Reflect.v; "
                "messages.Writer / messages.Reader as STATE MACHINES (buffer growth, byte order options, sticky error, Reset/Seek/Skip/Remaining, "
                "the two sync.Pools, WriteMessage/SerializeRemotingMessage nesting through pooled scratch Writers at any depth, ReadMessage through "
                "pooled Readers, scripted registered message writers/readers) vs Codec/Buf.v; actor.NewRef / utils.NormalizeAddress / NormalizePath / "
                "strings.TrimSpace vs Codec/RefNorm.v (net.ParseIP as oracle)",
        "args": {"quick": ["-mode", "rt"], "thorough": ["-mode", "rt"]},
    },
    "reflect_total": {
        "coq_run_module": "Codec.BufRun",
        "cmd": "reflect",
        "run": "run_reflect_all",
        "accessors": _ACC,
        "what": "the Writer/Reader state-machine scenarios of component reflect (half as many) with the monitors of C13 only (any panic, a Reader "
                "position outside its buffer), the observed states (capacity after every write; position / sticky error / element counter after every "
                "read, also after reads that failed half way) vs Codec/Buf.v; "
                "messages.Writer/Reader totality: every kind of value through Write; Read called with nil / non-pointer targets; "
                "truncated, corrupted, random and length-targeted input through Read in a child process under a 2 GiB "
                "address-space limit and a per-case timeout vs Codec/Reflect.v",
        "args": {"quick": ["-mode", "total"], "thorough": ["-mode", "total"]},
        "timeout": {"quick": 600, "thorough": 7200},
    },
}

PROPERTIES = {
    "C12": {
        "coq_files": ["Properties/C12_reflect.v"],
        "components": ["reflect"],
        "rule": ("reflect: exhaustive small domain first (12 basic types x their extreme values incl. NaN payloads/-0, under slice, array, "
                 "struct with unexported fields, nested, pointer); every WriteXxx/ReadXxx called directly with all truncations; "
                 "varint/uvarint at every power of two +-1, every truncation, continuation runs of length 0..12 (10-byte rule); "
                 "WriteBytesWithLength/ReadBytesWithLength for sizes {-1,0,1,2,3,4,5,8} x lengths {0,1,254..257,65535..65537,random}; "
                 "then seeded random types (depth<=3: slices incl. named, arrays, structs with unexported fields of ANY type) and values, "
                 "bytes compared with the model, decoded value (with random suffix, into a variable holding a random old value) compared "
                 "with the model and, on the implementation, with the value modulo nil-slice/unexported-field normalisation; "
                 "WriteFrom/ReadInto lists of 0..4 values, full and truncated. non-trivial = not a bare basic value; distinct = distinct input terms"
                 " Then the state machines (Codec/Buf.v): one case = one scenario of 3..40 steps over up to 3 Writer and 3 Reader handles (NewWriter / NewReader with random options: byte order, "
                 "caller-supplied buffer of tiny capacity, Reset flag, Mutable; or taken from the pools, which are emptied before every scenario) in a random "
                 "interleaving of: the twelve WriteXxx, varints, WriteBytes, WriteBytesWithLength (sizes 1 2 4 and invalid ones, lengths around 255 / 65535), "
                 "WriteShortString, Write / WriteFrom of random types and values (supported or not), Reset, WriteMessage of scripted registered messages "
                 "(3 harness message types; body = random operations, nested up to depth 4, returning the sticky error / nil / an error / panicking) and of "
                 "outside messages (no Codec / failing Codec / data), release and re-acquisition; readers over valid, truncated, corrupted data: every ReadXxx, "
                 "varints, ReadBytes, ReadBytesWithLength, Read / ReadInto of random types, Skip, Seek (in and out of range), Reset, ReadMessage with scripted "
                 "message readers and the three Codec variants; round-trip scenarios (writer operations incl. messages, then the inverse reader operations, in "
                 "either byte order, on recycled pool objects); deterministic growth scenarios (chunks of 255/256/257/... bytes, caller buffers of capacity 0/1/3); "
                 "after EVERY step the full observable state is compared with the model (Bytes, cap, order, Err, returned error / Pos, Error, Remaining, element "
                 "counter, result); every comparison with a fresh object is itself a step of the scenario. Pool users pass ByteOrder options and "
                 "release little-endian objects freely; a third of the round-trip scenarios Seek(0) and decode everything again up to three times; three fixed regression "
                 "scenarios replay the witnesses of the repaired defects 62b310d / 4dbfc0b / ce2f8d5. Then the ActorRef factory: strings.TrimSpace on every ASCII / Unicode white space, look-alikes and malformed UTF-8 "
                 "in every position, NormalizePath / NormalizeAddress / NewRef on 700 (x20) generated (address, path) pairs (40% valid; brackets, colons, signs and "
                 "leading zeros in ports, labels of 62..64 characters, names around 253 bytes, KELVIN SIGN / LONG S, percent escapes), net.ParseIP answers for every "
                 "substring passed as the oracle. non-trivial = a scenario with a registered message / ReadMessage; distinct = distinct input terms"),
        "modelled_not_verified": [
            "floats are their IEEE-754 bit patterns (the Go code only moves bits: math.Float32bits/Float32frombits)",
            "byte orders: binary.BigEndian and binary.LittleEndian (PrimO.v / ReflectO.v / Buf.v); any other ByteOrder implementation a caller might pass is not modelled",
            "64-bit int; slices/strings of 2^32 or more elements (length prefix wraps) are covered by theorems only, never executed",
            "sync.Pool = a list of the objects that were Put plus an ORACLE naming the object each Get hands out (the theorems hold for every oracle; the run observes it by pointer identity); assumed of its users (true of vivid's callers, which defer the release): an object is not used after it was Put and not Put twice",
            "slices are values: aliasing of Bytes() / Remaining() / a caller-supplied Buffer with the Writer's array is not modelled (Writer.Bytes is documented to alias; EncodeEnvelopWithRemoting copies before releasing)",
            "append's own growth policy is never exercised: ensureCapacity always makes room first (theorem C13_ensure_capacity_room), so the capacity is determined by ensureCapacity alone",
            "registered message writers / readers are SCRIPTS (lists of Writer / Reader operations, nested WriteMessage allowed, four ways of returning); a message reader that itself calls ReadMessage is covered by Codec/Msgs.v (functional, with fuel), not by the Reader machine (depth 1)",
            "Skip(n) / ReadBytes(n) with negative n (caller-supplied, not wire data) are outside the Reader machine (ReadBytes(-1) panics: modelled in Prim2.rd_bytes_z)",
            "ActorRef factory: net.ParseIP is an oracle (bytes -> bool); strings.TrimSpace's white-space set and the (?i) case folding of the domain regexp (U+212A, U+017F) are those of the Go 1.26 Unicode tables, transcribed by hand and compared on every run",
            "named struct/array/pointer types behave like their unnamed forms (only named basic types and named slices are distinguished, as in the type switch)",
        ],
    },
    "C13": {
        "coq_files": ["Properties/C13_reflect.v"],
        "components": ["reflect_total"],
        "rule": ("reflect_total: Write of every kind at top level and nested (nil/non-nil pointers and pointer chains to every basic type, named types, "
                 "int/uint, map/chan/func, interfaces holding basic/named/pointer values, nil interface, nil fields, unexported nil fields, nesting depth "
                 "up to 400) + seeded random values of arbitrary types; WriteFrom over arbitrary values; Read called with typed nil pointers, "
                 "non-pointers, nil; in a child process (RLIMIT_AS 2 GiB, per-case timeout): for each of 50 (x20 thorough) seeded valid encodings "
                 "every truncation, 4 single-byte corruptions per position, every 4-byte window (first 64 positions) overwritten with 4 hostile lengths, random strings "
                 "into the same and into arbitrary types, dedicated length-bomb inputs, ReadInto on every truncation of a list encoding; each decode "
                 "into a variable holding a random old value. outcome (value+consumed | error class | panic) compared with the model; monitors: "
                 "panic, child death, timeout (15 s per case), decode slower than 200 ms + 50 us/byte (confirmed by the fastest of 3 re-runs), allocation > 64*|input|+64KiB+8*sizeof(type), target changed by a failed Read. "
                 "non-trivial = all; distinct = distinct input terms"
                 " Then the state-machine scenarios of component reflect (see C12; 130 of each kind, x20 thorough), monitors: any panic, Reader position outside the buffer; "
                 "the state after every step (in particular position, sticky error and element counter after reads that FAILED half way, capacity after every write) compared with the model"),
        "modelled_not_verified": [
            "allocation is modelled as bytes requested from the allocator by Read (MakeSlice/New/make), Go struct padding ignored; the runtime's out-of-memory behaviour itself is observed, not modelled",
            "the Reader's element budget is per decode pass (Reset and, since ce2f8d5, Seek clear it); Codec/Reflect.v models one Reader over one buffer read front to back, Codec/Buf.v the whole Reader state machine", "recursion depth = nesting depth of the type/value (finite by construction of goty/goval; a Go value cannot be cyclic through the kinds Write accepts except via pointers/interfaces to itself, which is not representable here and not generated)",
            "ReadBytes(n)/Skip(n) with a negative caller-supplied n panic (modelled, compared, not counted as a violation: n is not wire data)",
        ],
    },
}

META = {
    "C12": {
        "text": ("Generic half (primitive Writer/Reader): kernel-checked theorems about the Gallina model of Write/Read/writeReflect/readReflect: "
                 "for every supported type (basic, slice, array, struct, nested arbitrarily) and every value within the uint32 length range whose slices of zero-wire-size elements are empty, on a fresh Reader and on a Reader in any state whose element budget covers the value, "
                 "Read ty (Write v ++ rest) = (v modulo nil-slice->empty and unexported-field->zero, rest), by induction on the type; the same "
                 "for WriteFrom/ReadInto lists and for each primitive (fixed width, bool, float bits, varint/uvarint exactly as encoding/binary, "
                 "short strings, 1/2/4-byte length prefixes); each excluded value class is a theorem with a witness. Tied to the Go code by a "
                 "byte-exact differential check on reflect-built values. "
                 "State machines (Codec/Buf.v): the real Writer (capacity and growth, either byte order, sticky error, Reset, the sync.Pool with an oracle for "
                 "what Get hands out, WriteMessage -> SerializeRemotingMessage -> pooled scratch Writer -> message writer -> WriteMessage at every depth with "
                 "roll-back) is proved, by induction over the nesting, to compute the functional encoder on what the Writer held, for every clean pool and every "
                 "oracle (no leak of earlier content, error cleared by Reset, nested length prefixes at every depth); writer operations -> bytes -> inverse reader "
                 "operations return the values and end exactly at the end of the writer's bytes for ANY (pooled / reset / grown) Writer and Reader of either order, "
                 "also through WriteMessage / ReadMessage; in EVERY scenario (many handles, any interleaving, any byte order options, any pool behaviour) each handle "
                 "depends on its own history only: a Writer / Reader obtained from a pool without a ByteOrder option is big-endian whatever the pool's history, and after "
                 "Seek(p) a Reader is a new Reader positioned at p (re-decoding any number of times succeeds). Write/Read of every supported type round-trips in BOTH byte orders; the big-endian "
                 "instance of the order-parametric functions is proved equal to the model above. The ActorRef factory (NewRef = NormalizeAddress + NormalizePath "
                 "+ TrimSpace, net.ParseIP as the only oracle) is modelled at string level and proved idempotent, which discharges the hypothesis on the "
                 "uninterpreted factory in the OnKill / OnKilled round trips. Two defects found by this model (pooled objects kept the byte order of their previous "
                 "user; Seek did not restore the element budget) were repaired in /repo (62b310d, 4dbfc0b, ce2f8d5); the model follows the repaired code, the former "
                 "refuted theorems are now the positive ones and the witnesses are regression scenarios."),
        "design_ref": "DESIGN.md §4 C12, Appendix C",
        "note": "Trusted: Coq kernel + vm_compute; ExtrOcamlBasic extraction (cross-checked by vm_compute on a sample each run); the harness (reflect.StructOf/SliceOf/ArrayOf value builder, unsafe access to unexported fields and float bits).",
        "technique": "Coq proof (induction on the type universe) over a hand-written model + differential correspondence check against the Go code",
    },
    "C13": {
        "text": ("Generic half: the same model (of the code after the nil-pointer, slice-length and element-budget fix commits) with explicit crash "
                 "outcomes, the Reader's element counter threaded through Read, and a cost meter: the writer's outcome for EVERY Go value (unsupported "
                 "kinds, named types, nil pointers at any depth, nil interfaces) is Ok or Err; the reader's outcome for every type, EVERY byte string "
                 "and every Reader state is Ok or Err, the loop fuel |input|+1 is never exhausted, the result is a suffix of the input; Read with a "
                 "nil/non-pointer target is an error; for EVERY type and input, bytes allocated + iterations <= 2*kA(type)*|input| + kK(type) "
                 "(potential = remaining bytes + remaining element budget), hostile length prefixes are rejected before allocating; a failed Read "
                 "leaves its variable unchanged; ReadInto assigns exactly the variables before the failing one. "
                 "State machines (Codec/Buf.v, ReflectO.v): in both byte orders the generic reader's outcome is Ok or Err and its consumption meter never exceeds "
                 "the remaining input, also on the failure path, so every Reader operation (Skip, Seek, Reset, ReadMessage through the pool included) keeps "
                 "0 <= Pos() <= len(buf); the sticky error is characterised exactly (which operations ignore it); the Writer's append never reallocates behind "
                 "ensureCapacity and its capacity is at most max(before, 2 * length after) per operation, nested messages included."),
        "design_ref": "DESIGN.md §4 C13, Appendix C",
        "note": "Hostile inputs run in a child process under RLIMIT_AS; child death / timeout / disproportionate allocation are implementation-side monitor hits naming the input.",
        "technique": "Coq proof (induction; explicit fuel with exhaustion excluded by theorem; cost meter) + differential check + resource monitors in a sandboxed child process",
    },
}
