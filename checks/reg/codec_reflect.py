"""C12 / C13, generic half: the primitive Writer/Reader of internal/messages (writer.go, reader.go)."""

COMPONENTS = {
    "reflect": {
        "coq_run_module": "Codec.ReflectRun",
        "what": "messages.Writer/Reader: every WriteXxx/ReadXxx primitive, Write/Read type switch, writeReflect/readReflect, "
                "WriteFrom/ReadInto on supported values (round trips) vs Codec/Reflect.v",
        "args": {"quick": ["-mode", "rt"], "thorough": ["-mode", "rt"]},
    },
    "reflect_total": {
        "coq_run_module": "Codec.ReflectRun",
        "cmd": "reflect",
        "run": "run_reflect",
        "what": "messages.Writer/Reader totality: every kind of value through Write; Read called with nil / non-pointer targets; "
                "truncated, corrupted, random and length-targeted input through Read in a child process under a 2 GiB "
                "address-space limit and a per-case timeout vs Codec/Reflect.v",
        "args": {"quick": ["-mode", "total"], "thorough": ["-mode", "total"]},
        "timeout": {"quick": 600, "thorough": 7200},
    },
}

PROPERTIES = {
    "C12": {
        "coq_files": ["Properties/C12_reflect.v"],
        "components": ["reflect"],
        "rule": ("reflect: exhaustive small domain first (12 basic types x their extreme values incl. NaN payloads/-0, under slice, array, "
                 "struct with unexported fields, nested, pointer); every WriteXxx/ReadXxx called directly with all truncations; "
                 "varint/uvarint at every power of two +-1, every truncation, continuation runs of length 0..12 (10-byte rule); "
                 "WriteBytesWithLength/ReadBytesWithLength for sizes {-1,0,1,2,3,4,5,8} x lengths {0,1,254..257,65535..65537,random}; "
                 "then seeded random types (depth<=3: slices incl. named, arrays, structs with unexported fields of ANY type) and values, "
                 "bytes compared with the model, decoded value (with random suffix, into a variable holding a random old value) compared "
                 "with the model and, on the implementation, with the value modulo nil-slice/unexported-field normalisation; "
                 "WriteFrom/ReadInto lists of 0..4 values, full and truncated. non-trivial = not a bare basic value; distinct = distinct input terms"),
        "modelled_not_verified": [
            "floats are their IEEE-754 bit patterns (the Go code only moves bits: math.Float32bits/Float32frombits)",
            "byte order is the default big-endian (WriterOption.ByteOrder/ReaderOption.ByteOrder other than the default are not modelled)",
            "64-bit int; slices/strings of 2^32 or more elements (length prefix wraps) are covered by theorems only, never executed",
            "Writer buffer growth (ensureCapacity), pooling (NewWriterFromPool/NewReaderFromPool), Reset/Seek/Skip/Remaining are not modelled",
            "named struct/array/pointer types behave like their unnamed forms (only named basic types and named slices are distinguished, as in the type switch)",
        ],
    },
    "C13": {
        "coq_files": ["Properties/C13_reflect.v"],
        "components": ["reflect_total"],
        "rule": ("reflect_total: Write of every kind at top level and nested (nil/non-nil pointers and pointer chains to every basic type, named types, "
                 "int/uint, map/chan/func, interfaces holding basic/named/pointer values, nil interface, nil fields, unexported nil fields, nesting depth "
                 "up to 400) + seeded random values of arbitrary types; WriteFrom over arbitrary values; Read called with typed nil pointers, "
                 "non-pointers, nil; in a child process (RLIMIT_AS 2 GiB, per-case timeout): for each of 50 (x20 thorough) seeded valid encodings "
                 "every truncation, 4 single-byte corruptions per position, every 4-byte window (first 64 positions) overwritten with 4 hostile lengths, random strings "
                 "into the same and into arbitrary types, dedicated length-bomb inputs, ReadInto on every truncation of a list encoding; each decode "
                 "into a variable holding a random old value. outcome (value+consumed | error class | panic) compared with the model; monitors: "
                 "panic, child death, timeout (15 s per case), decode slower than 200 ms + 50 us/byte (confirmed by the fastest of 3 re-runs), allocation > 64*|input|+64KiB+8*sizeof(type), target changed by a failed Read. "
                 "non-trivial = all; distinct = distinct input terms"),
        "modelled_not_verified": [
            "allocation is modelled as bytes requested from the allocator by Read (MakeSlice/New/make), Go struct padding ignored; the runtime's out-of-memory behaviour itself is observed, not modelled",
            "the Reader's element budget is per Reader lifetime (Reset clears it; Seek does not): modelled for one Reader over one buffer read front to back", "recursion depth = nesting depth of the type/value (finite by construction of goty/goval; a Go value cannot be cyclic through the kinds Write accepts except via pointers/interfaces to itself, which is not representable here and not generated)",
            "ReadBytes(n)/Skip(n) with a negative caller-supplied n panic (modelled, compared, not counted as a violation: n is not wire data)",
        ],
    },
}

META = {
    "C12": {
        "text": ("Generic half (primitive Writer/Reader): kernel-checked theorems about the Gallina model of Write/Read/writeReflect/readReflect: "
                 "for every supported type (basic, slice, array, struct, nested arbitrarily) and every value within the uint32 length range whose slices of zero-wire-size elements are empty, on a fresh Reader and on a Reader in any state whose element budget covers the value, "
                 "Read ty (Write v ++ rest) = (v modulo nil-slice->empty and unexported-field->zero, rest), by induction on the type; the same "
                 "for WriteFrom/ReadInto lists and for each primitive (fixed width, bool, float bits, varint/uvarint exactly as encoding/binary, "
                 "short strings, 1/2/4-byte length prefixes); each excluded value class is a theorem with a witness. Tied to the Go code by a "
                 "byte-exact differential check on reflect-built values."),
        "design_ref": "DESIGN.md §4 C12, Appendix C",
        "note": "Trusted: Coq kernel + vm_compute; ExtrOcamlBasic extraction (cross-checked by vm_compute on a sample each run); the harness (reflect.StructOf/SliceOf/ArrayOf value builder, unsafe access to unexported fields and float bits).",
        "technique": "Coq proof (induction on the type universe) over a hand-written model + differential correspondence check against the Go code",
    },
    "C13": {
        "text": ("Generic half: the same model (of the code after the nil-pointer, slice-length and element-budget fix commits) with explicit crash "
                 "outcomes, the Reader's element counter threaded through Read, and a cost meter: the writer's outcome for EVERY Go value (unsupported "
                 "kinds, named types, nil pointers at any depth, nil interfaces) is Ok or Err; the reader's outcome for every type, EVERY byte string "
                 "and every Reader state is Ok or Err, the loop fuel |input|+1 is never exhausted, the result is a suffix of the input; Read with a "
                 "nil/non-pointer target is an error; for EVERY type and input, bytes allocated + iterations <= 2*kA(type)*|input| + kK(type) "
                 "(potential = remaining bytes + remaining element budget), hostile length prefixes are rejected before allocating; a failed Read "
                 "leaves its variable unchanged; ReadInto assigns exactly the variables before the failing one."),
        "design_ref": "DESIGN.md §4 C13, Appendix C",
        "note": "Hostile inputs run in a child process under RLIMIT_AS; child death / timeout / disproportionate allocation are implementation-side monitor hits naming the input.",
        "technique": "Coq proof (induction; explicit fuel with exhaustion excluded by theorem; cost meter) + differential check + resource monitors in a sandboxed child process",
    },
}
