"""C07 — System Start/Stop/context-cancel state machine (micro-step model; lock-step traces of the instrumented
system.go under the controlled scheduler + real-time differential runs on real systems)."""

COMPONENTS = {
    "syslife": {
        "coq_run_module": "System.LifecycleRun",
        "accessors": {"internal/actor/xv_syslife_verif.go": "acc/actor/xv_syslife_verif.go",
                      "internal/scheduler/xv_sched_verif.go": "acc/scheduler/xv_sched_verif.go"},
        "instrument": {"profile": "system", "files": ["internal/actor/system.go", "internal/actor/system_chains.go"]},
        "timeout": {"quick": 600, "thorough": 3000},
        "what": ("real System.Start/Stop/stop + context-guard goroutine. (A) real-time: real systems (actor trees of depth 0-3, with/without remoting "
                 "on loopback, start-up failure, trees that do not terminate within the timeout), every order of <=2 Start, <=3 Stop, <=1 cancel "
                 "sequentially and concurrently under GOMAXPROCS variations; the observed return-code vector must be admissible for the model's "
                 "call-level specification (Lifecycle.admissible); first of all 400 (quick) Start || Stop (|| Stop / cancel / Start) races on systems WITH metrics "
                 "(the start-up chain takes actorOfLock under statusLock; no TCP port) under a 3 s watchdog - a lock-order deadlock is reported as "
                 "c07-start-stop-deadlock naming, per lock, the call site that holds it and the call sites blocked in front of it. "
                 "(B) lock-step: system.go / system_chains.go instrumented from the current source "
                 "(statusLock AND actorOfLock, the s.Context / s.clusterContext reads, Kill(root), cancel, the select, scheduler.Stop, ctx.Done) run under the "
                 "controlled scheduler, on plain and on metrics-enabled systems; every step's (label, status, s.Context!=nil, ctx cancelled, #guard goroutines), the per-call results and the "
                 "final verdict are replayed on System/Lifecycle.v; all threads parked in front of held locks = c07-start-stop-deadlock with the lock cycle and the schedule; "
                 "per run the lock operations of every thread are checked against the lock view System/LockOrder.v (respects statusLock < actorOfLock, is a program of that thread kind)"),
    },
}

PROPERTIES = {
    "C07": {
        "components": ["syslife"],
        "rule": ("lock-step: depth-first enumeration with a preemption bound over 12 hand-picked call multisets (plain systems) and 6 (metrics-enabled systems: the "
                 "step in front of `if system.options.Metrics != nil` is not reported, the model's chain step is the one starting at the acquisition of actorOfLock) "
                 "plus seeded random multisets, one in five on a metrics-enabled system (<=2 Start, "
                 "<=3 Stop with/without timeout, <=1 cancel) under random and sticky schedulers, one case = one complete schedule (timer firings and root "
                 "termination are schedule events); real-time: one case = one scenario with its observed return codes. distinct = distinct "
                 "(configuration, schedule) / (scenario, outcome vector); non-trivial = at least two context switches / at least three calls"),
        "modelled_not_verified": [
            "M1: sync.Mutex gives mutual exclusion; the switch under statusLock is one atomic step; M3: goroutine scheduling = arbitrary interleaving of the instrumented steps "
            "(the reads of s.Context / s.clusterContext in stop take place after stop's own critical section, the writes inside Start's: ordered by statusLock)",
            "M6: virtual time; time.After(d) fires no earlier than d",
            "termination of the actor tree after Kill(root) (closing guardClosedSignal) is an environment event (C06's concern); cluster Leave completion is an environment event (no timeout in the code)",
            "the call-level specification Lifecycle.admissible (used by the real-time tier) shares status_after / the result tables with the theorems but is not itself proved equivalent to the micro-step model",
            "goroutines owned by go-quartz, net and the Go runtime are outside the model (the real-time leak monitor looks at them on the implementation only)",
            "lock view (System/LockOrder.v, theorems C07_lock_*): a separate machine - the projection of Start / stop / guard / System.ActorOf onto Acq / Rel / Wait / Work programs with the "
            "start-up chain refined into its k ActorOf calls; it is NOT proved to be a refinement of the micro-step model (which keeps the chain as one step under statusLock); its tie to the "
            "code is the per-thread lock-operation check of the lock-step harness (only the two instrumented mutexes statusLock and actorOfLock; Context.childrenLock, futureLock etc. taken "
            "inside Context.ActorOf are leaf locks outside this view; clustered / remoting start-up chains are modelled (k up to 5) but exercised by the real-time tier only)",
        ],
    },
}

META = {
    "C07": {
        "text": ("Inductive invariants over ALL populations of Start / Stop(timeout) / cancel callers and ALL interleavings of a micro-step Gallina model of "
                 "System.Start/stop and the context-guard goroutine: mutual exclusion and bounded holding of statusLock, progress (an unfinished thread can step, "
                 "or waits for a lock whose holder can step, or waits for the environment only), a strictly decreasing per-thread rank (at most 20 steps per call), "
                 "return values as a function of the linearisation order of the status switches, one-way status, exactly one effective stop / one Kill(root), "
                 "cancel = Stop, termination of the guard goroutine once the context is cancelled, Stop terminates the system (every stop that returns nil "
                 "while a root exists issued exactly one Kill(root), cancelled the context and saw guardClosedSignal closed; the kill is skipped only when "
                 "root creation itself failed). Start's critical section (status switch + whole start-up chain under statusLock, /repo commit 0843af8) is modelled; "
                 "the monitor stop-skipped-kill-and-cancel stays armed against the Start/Stop race that commit repaired. "
                 "Lock order: for every population of Start / Stop / guard / external System.ActorOf / cancel threads (start-up chain with any number of ActorOf calls under statusLock, "
                 "clustered stop taking actorOfLock in Leave) and every interleaving - mutual exclusion of statusLock and actorOfLock, the wait-for relation is acyclic (a thread in front of a lock "
                 "holds only lower-ranked locks; whoever waits for statusLock holds nothing), no deadlock on locks (generic lock-hierarchy theorem C07_lock_hierarchy_sound + C07_lock_programs_ordered); "
                 "the inverted stop (actorOfLock before statusLock) is rejected and provably deadlocks (C07_lock_inversion_deadlocks)."),
        "design_ref": "DESIGN.md section 4 C07",
        "note": ("Trusted: Coq kernel; extraction; AST instrumenter (profile system) + controlled scheduler (harness/instr, harness/vsched); the harness's "
                 "goroutine-dump based leak monitor; M1, M3, M6; fairness of the Go scheduler for liveness."),
        "technique": ("Coq proof (inductive invariants of a small-step concurrent machine, all thread populations and schedules) + lock-step correspondence against the "
                      "instrumented real system.go under a controlled scheduler + real-time differential runs with property monitors"),
    },
}
