"""C07 — System Start/Stop/context-cancel state machine (micro-step model merged with the two mutexes of system.go;
lock-step traces of the instrumented system.go / system_chains.go under the controlled scheduler + real-time differential
runs on real systems)."""

COMPONENTS = {
    "syslife": {
        "coq_run_module": "System.LifeLockRun",
        "run": "run_syslife2",
        "accessors": {"internal/actor/xv_syslife_verif.go": "acc/actor/xv_syslife_verif.go",
                      "internal/scheduler/xv_sched_verif.go": "acc/scheduler/xv_sched_verif.go"},
        "instrument": {"profile": "system", "files": ["internal/actor/system.go", "internal/actor/system_chains.go"]},
        "timeout": {"quick": 600, "thorough": 3000},
        "what": ("real System.Start/Stop/stop + context-guard goroutine + System.ActorOf. (A) real-time: real systems (actor trees of depth 0-3, with/without remoting "
                 "on loopback, single-node cluster, start-up failure, trees that do not terminate within the timeout), every order of <=2 Start, <=3 Stop, <=1 cancel "
                 "sequentially and concurrently under GOMAXPROCS variations; the observed return-code vector must be admissible for the model's "
                 "call-level specification (Lifecycle.admissible); first of all 400 (quick) Start || Stop (|| Stop / cancel / Start) races on systems WITH metrics "
                 "(the start-up chain takes actorOfLock under statusLock; no TCP port) under a 3 s watchdog - a lock-order deadlock is reported as "
                 "c07-start-stop-deadlock naming, per lock, the call site that holds it and the call sites blocked in front of it; after ANY effective stop has returned "
                 "(nil or the timeout arm, blocking trees included) the system context must be cancelled and the context-guard goroutine gone "
                 "(c07-stop-returned-context-not-cancelled, c07-guard-goroutine-outlives-stop); Stop || a goroutine looping System.ActorOf: every actor whose ActorOf "
                 "returned a reference receives its own OnKilled and the root terminates (c07-actorof-races-stop:root-never-terminates / :actor-survives-stop). "
                 "(B) lock-step: system.go / system_chains.go instrumented from the current source by a SEMANTIC profile (an operation is found wherever it is written - "
                 "helper method, closure - and labelled by what it does: Lock:status, Lock:actorOf, stmt:NewContext, stmt:if-Metrics, stmt:if-clusterContext, call:Leave, "
                 "stmt:if-Context, call:Kill, call:cancel, select:guardClosed, call:scheduler.Stop, recv:ctxDone; the status lock is the mutex locked by a function that reads / "
                 "writes .status, whatever its name; the stop select may use time.After or any timer channel) run under the controlled scheduler on plain, metrics-enabled, "
                 "remoting-enabled and single-node-cluster systems (real TCP listener / real cluster node on loopback; Leave() of the effective stop included), on systems whose "
                 "root creation fails (Start's failure path), and with external System.ActorOf callers; every step's (label, status, s.Context!=nil, ctx cancelled, #guard goroutines, "
                 "holder of statusLock, holder of actorOfLock), the per-call results and the final verdict are replayed on the MERGED machine System/LifeLock.v (replay kind 4); "
                 "all threads parked in front of held locks = c07-start-stop-deadlock with the lock cycle and the schedule; per run the lock operations of every thread are checked "
                 "against the lock view System/LockOrder.v; a controlled run that makes no progress for 25 s (an uninstrumented goroutine / timer / callback is involved) ends the "
                 "harness at once with HARNESS-DID-NOT-COMPLETE (broken correspondence, not a failing input)"),
    },
}

PROPERTIES = {
    "C07": {
        "components": ["syslife"],
        "rule": ("lock-step: depth-first enumeration with a preemption bound over 12 hand-picked call multisets (plain systems), 6 (metrics-enabled), 4 with 1-2 external "
                 "System.ActorOf callers, 6 on systems whose root creation fails, 5 on remoting / single-node-cluster systems on loopback, "
                 "plus seeded random multisets (<=2 Start, <=3 Stop with/without timeout, <=1 cancel; one in five metrics-enabled, one in seven root-fails, one in six with external "
                 "ActorOf callers, one in fifty clustered) under random and sticky schedulers, one case = one complete schedule (timer firings, root "
                 "termination and leave completion are schedule events); real-time: one case = one scenario with its observed return codes. distinct = distinct "
                 "(configuration, schedule) / (scenario, outcome vector); non-trivial = at least two context switches / at least three calls. Seeds >= 1000 (the ones bin/check uses for "
                 "its targeted search after a correspondence break) run a reduced real-time tier: that tier does not depend on the seed except for which quarter of the longest sequences it samples"),
        "modelled_not_verified": [
            "M1: sync.Mutex gives mutual exclusion; the switch under statusLock is one atomic step; M3: goroutine scheduling = arbitrary interleaving of the instrumented steps "
            "(the reads of s.Context / s.clusterContext in stop take place after stop's own critical section, the writes inside Start's: ordered by statusLock)",
            "M6: virtual time; time.After(d) / a timer channel fires no earlier than d",
            "termination of a single killed actor / of the tree after Kill(root) (closing guardClosedSignal) is an environment event (C06's concern); cluster Leave completion is an "
            "environment event (no timeout in the code; it can only happen if the helper actor of Leave() was created: LifeLock.leaveHelper)",
            "Context.ActorOf and the deferred actorOfLock.Unlock are not scheduling points of the instrumented code: in the merged machine they are steps of their own, in the replay "
            "part of the macro step that starts at actorOfLock.Lock(); Context.ActorOf never blocks on another thread (childrenLock, futureLock ... are leaf locks; a user actor's "
            "OnPrelaunch that calls back into System.Start / Stop / ActorOf is user error)",
            "leaveLock of cluster.Context (taken by Leave() holding nothing, released before the blocking wait) is not modelled: among the threads of the model only the one effective stop calls Leave()",
            "System/RootSpawn.v (System.ActorOf racing the root's OnKill, theorems C07_actorof_*): the root's mailbox goroutine and the inside of Context.ActorOf are not under the "
            "controlled scheduler; the tie to the code is the pair of regression monitors c07-actorof-races-stop:* in both tiers (every actor whose System.ActorOf returned a reference "
            "receives its own OnKilled once Stop / cancel has taken effect, and the root terminates) and the lock-step replay (outcome 1 / 2 of an external caller's step is rejected by the model)",
            "the call-level specification Lifecycle.admissible (used by the real-time tier) shares status_after / the result tables with the theorems but is not itself proved equivalent to the micro-step model",
            "goroutines owned by go-quartz, net and the Go runtime are outside the model (the real-time leak monitor looks at them on the implementation only)",
            "lock view (System/LockOrder.v, theorems C07_lock_*): the generic lock-hierarchy theorem and the straight-line programs the per-thread lock-operation check of the lock-step "
            "harness compares with (kind 3); deadlock freedom of the life-cycle code itself is now C07_merged_no_deadlock on the merged machine, which the lock-step replay is made on; "
            "that every thread's lock operations in the merged machine form one of the LockOrder programs is checked per run, not proved",
        ],
    },
}

META = {
    "C07": {
        "text": ("Inductive invariants over ALL populations of Start / Stop(timeout) / cancel callers and ALL interleavings of a micro-step Gallina model of "
                 "System.Start/stop and the context-guard goroutine: mutual exclusion and bounded holding of statusLock, progress (an unfinished thread can step, "
                 "or waits for a lock whose holder can step, or waits for the environment only), a strictly decreasing per-thread rank (at most 20 steps per call), "
                 "return values as a function of the linearisation order of the status switches, one-way status, exactly one effective stop / one Kill(root), "
                 "cancel = Stop, termination of the guard goroutine once the context is cancelled, Stop terminates the system (every stop that returns nil "
                 "while a root exists issued exactly one Kill(root), cancelled the context and saw guardClosedSignal closed; the kill is skipped only when "
                 "root creation itself failed). Start's critical section (status switch + whole start-up chain under statusLock, /repo commit 0843af8) is modelled. "
                 "ONE machine for life cycle and locks (System/LifeLock.v, C07_merged_*): the micro-step model plus actorOfLock, the start-up chain refined into its System.ActorOf calls "
                 "(@metrics / @remoting / @cluster / proxy manager / singleton manager, from the configuration) executed under statusLock, Leave() refined into its ActorOf call, any number of "
                 "external System.ActorOf callers - it refines the micro-step model step by step (C07_merged_refines: every theorem holds of its abstract part), both locks are "
                 "mutual-exclusion locks, the hierarchy statusLock < actorOfLock holds (whoever stands in front of statusLock or waits for the environment holds nothing), and no reachable "
                 "state is a deadlock with BOTH locks (C07_merged_no_deadlock: wait-for chains have length <= 2 and end in a thread that can step), bounded own steps chain included. "
                 "Every stop that gets through cancels the context BEFORE its select: once an effective stop has returned, nil or stop-failed, the context is cancelled, and every "
                 "quiescent state with status stop has all threads finished, the guard goroutine included (C07_returned_stop_cancelled, C07_stopped_system_quiesces). "
                 "System.ActorOf racing Stop (System/RootSpawn.v): with the re-read of the root's state after the registration of the child (/repo 6438ab6, a defect found by this check) "
                 "every registered child is killed, the root never waits for a child nobody kills, at quiescence everything has terminated - for all interleavings; the stale read "
                 "provably orphans a child / leaves a survivor (C07_actorof_stale_read_*). "
                 "Lock view: generic lock-hierarchy theorem C07_lock_hierarchy_sound + C07_lock_programs_ordered; "
                 "the inverted stop (actorOfLock before statusLock) is rejected and provably deadlocks (C07_lock_inversion_deadlocks)."),
        "design_ref": "DESIGN.md section 4 C07",
        "note": ("Trusted: Coq kernel; extraction; AST instrumenter (profile system, semantic labels) + controlled scheduler (harness/instr, harness/vsched); the harness's "
                 "goroutine-dump based leak monitor; M1, M3, M6; fairness of the Go scheduler for liveness."),
        "technique": ("Coq proof (inductive invariants of a small-step concurrent machine, all thread populations and schedules; step-by-step refinement between the merged and the "
                      "micro-step machine) + lock-step correspondence against the "
                      "instrumented real system.go under a controlled scheduler + real-time differential runs with property monitors"),
    },
}
