"""C10 — documented-concurrent API is safe from any goroutine (partial): lock-set discipline over a generated
access inventory + stress under the race detector."""

COMPONENTS = {
    "race": {
        "coq_run_module": "Race.LocksetRun",
        "accessors": {"internal/actor/xv_race_verif.go": "acc/actor/xv_race_verif.go",
                      "internal/mailbox/xv_race_verif.go": "acc/mailbox/xv_race_verif.go"},
        "race": True,
        "monitors_only": True,
        "timeout": {"quick": 420, "thorough": 1500},
        "what": ("child process under the Go race detector. (a) 3/20 of the budget, own system: rounds of 'tree consistency under spawn / termination overlap at the "
                 "root' - the root has exactly one (sometimes zero / two) top-level children, all killed while 2-4 goroutines call System.ActorOf with actors whose "
                 "OnPrelaunch takes 0.1-2 ms (seeded), then quiescence and the tree monitor (registry <-> root's children, both ways, = exactly the live top-level "
                 "actors; ActorOf must not fail), finally System.Stop must stop every actor ever spawned (nothing registered, every actor saw its own OnKilled). "
                 "(b) one real system stressed: 16 (quick, 17 s) / 48 (thorough) goroutines calling "
                 "System.ActorOf / Kill / Tell / Ask / FindActor / PipeTo / Entrust / Ping, Future.Result / Wait / Close / PipeTo (futures shared between "
                 "goroutines), EventStream.Subscribe / Publish / Unsubscribe / UnsubscribeAll, Ref.Clone / String / Equals on shared refs, while the actors "
                 "spawn children, stash, watch, schedule, panic (all six supervision decisions, failing restart hooks -> zombies), kill children and "
                 "themselves; then quiescence, tree check, System.Stop, tree check. Monitors: data-race (one per distinct pair of sites), fatal, panic, hang, "
                 "tree, table-stale. Plus one model case: the access inventory regenerated in-process, its discipline verdict recomputed by Race/LocksetRun.v"),
    },
}

PROPERTIES = {
    "C10": {
        "components": ["race"],
        "pregen": ["bin/gen_access"],
        # `stop-failed` (System.Stop returned an error because some actor never terminated) is not a statement of C10
        # (C06 / C07 / C09 are about termination); it is reported in the evidence info but does not decide this property
        "monitor_filter": r"^(data-race|harness-race|fatal|panic|hang|tree|table-stale|inventory|child-died)$",
        "rule": ("obligations: the lock-set discipline evaluated by vm_compute on coq/Generated/AccessTable.v, regenerated before the Coq step from the tree "
                 "under test (every read/write site of the 22 shared location classes of DESIGN 4-C10 with function, R/W, atomic?, locks lexically held, "
                 "owner role, publication phase); the bound is the table. Search: a seeded stress of the real system under -race; the seed fixes the "
                 "callers' operation streams and the actors' choices, the interleaving is the Go scheduler's (not replayable exactly: a replay re-runs the same "
                 "seed and tier). One model case per run (the inventory and the Go-side discipline verdict, recomputed by the extracted model and by vm_compute); "
                 "non-trivial = the inventory is non-empty"),
        "modelled_not_verified": [
            "PARTIAL: the theorems are about the inventory and the discipline, not about the Go memory model; that a site's annotations (locks held, owner role, "
            "publication phase) are true at run time is the translator's claim. 'No crash' and 'tree not corrupted' are searched for by the stress harness, not proved",
            "owner role = the goroutine currently processing the actor's mailbox; at most one per actor at a time is property C01 (C01_single_consumer), assumed "
            "here (machine rule SBecome). The owner-only function list is hand-written in harness/cmd/accessgen/gen/gen.go and checked against the static call graph; "
            "exported ActorContext / Scheduler methods are owner-only by vivid's documented contract",
            "M1/M2: sync/atomic operations, sync.Map methods and channel operations are atomic accesses; sync.Mutex / sync.RWMutex give mutual exclusion (Lock exclusive, RLock shared)",
            "lexical lock tracking (per function, must-hold intersection at joins, same-base-expression rule, closures start with nothing held, caller-held locks unknown) errs "
            "towards false alarms except: base variable re-assigned between Lock and access, a callee/closure releasing the caller's lock, Unlock through an alias, contents of a "
            "field escaping into locals/structs/results and used after Unlock (followed: local aliases of inner maps, and local aliases of a tracked map field itself, "
            "obtained by `x := B.f` or from a method whose return statement is `return R.f`) - these can hide a race from the table",
            "container aliases: an access through a local alias of a tracked map gets credit for a lock of the same base only while it is the SAME acquisition under which the "
            "alias was read from the field (a table captured in one critical section and used in a later one may be detached from the field: time-of-check/time-of-use); "
            "this is conservative - it also flags a stale alias of a field that is in fact never re-assigned; aliases passed to callees / stored in structs are not followed",
            "accesses through reflection, unsafe, third-party code, or packages other than internal/actor, internal/future, internal/remoting are not inventoried; "
            "composite-literal initialisers (construction before sharing) are not accesses",
            "the once-published discipline (Future.err / message: written by the winner of closed.CompareAndSwap(false,true) before close(done), read by others after <-done) "
            "is recognised syntactically (gate / close / receive statements of the same base expression)",
        ],
    },
}

META = {
    "C10": {
        "text": ("PARTIAL. Kernel-checked: a generic lock-set theorem (Race/Lockset.v, LocksetProofs.v) - for every access table and every population of threads, object "
                 "instances and schedules of an abstract machine with RWMutex locks, per-actor owner goroutines and once-only publication events, if every location class is "
                 "atomic-only, or under one common lock (writes exclusive, reads shared), or owner-goroutine-only, or once-published, or never written, then no reachable state "
                 "has two threads in the middle of conflicting accesses - instantiated by vm_compute on the access inventory that a go/ast + go/types translator regenerates "
                 "from the tree under test before every check (22 location classes: Context.children/watchers/stash/state/zombie/restarting, System.futureAgents outer+inner, "
                 "actorContexts, eventStream.subscribers/subscriberTypes outer+inner, Future.closed/err/message/forwarders/done/timer, Ref.cache, MailboxCentral.mailboxes, "
                 "Scheduler.jobKeys; a theorem also checks that every class has at least one site). If the table violates the discipline the proof breaks and the check names "
                 "the sites. Search on the real code: a 20 s / 5 min stress of one system under the Go race detector overlapping all documented-concurrent API calls with spawn, "
                 "child death, restart, stop, zombies; monitors for race reports (normalised to the pair of vivid sites), runtime fatal errors, escaped panics, hangs and "
                 "registry/children/parent consistency at quiescence and after Stop; plus rounds aimed at the root's child table (all top-level children of the root "
                 "terminate while System.ActorOf calls with slow OnPrelaunch are in flight; tree monitor after every round; Stop stops everything). The inventory follows local aliases "
                 "of a tracked map (also through a `return R.f` helper): a lock counts for such an access only within the critical section in which the alias was read "
                 "(a table captured earlier and written under a later acquisition is reported as unprotected: detached-table TOCTOU)."),
        "design_ref": "DESIGN.md section 4 C10, section 2.4.5",
        "note": ("Trusted: Coq kernel + vm_compute; the translator (lexical lock tracking, role list) and its documented blind spots; the Go race detector (search only); "
                 "C01_single_consumer as an assumption. Found and fixed while building: data race on Future.timer between NewFuture and the timeout goroutine "
                 "(commit 330d607; caught by both the discipline and -race)."),
        "technique": "Coq proof (inductive invariant of an abstract access machine; generic lock-set soundness) + generated finite instance checked by vm_compute + stress under the Go race detector",
    },
}
