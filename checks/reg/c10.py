"""C10 — documented-concurrent API is safe from any goroutine (partial): lock-set discipline over a generated
access inventory, the actor-tree machine (registry <-> children <-> parent for all interleavings), the panic-site
discipline, forced window schedules on the real code + stress under the race detector."""

import os as _os

# the copy of internal/actor/context.go with a hook call in front of every lock acquisition, regenerated from the tree under test by
# bin/gen_access (pregen) before every check: build/gen/race/context.go (an absolute path: the framework joins it to harness/)
_HOOKED = _os.path.join(_os.path.dirname(_os.path.dirname(_os.path.dirname(_os.path.abspath(__file__)))), "build", "gen", "race", "context.go")

COMPONENTS = {
    "race": {
        "coq_run_module": "Race.LocksetRun",
        "accessors": {"internal/actor/xv_race_verif.go": "acc/actor/xv_race_verif.go",
                      "internal/mailbox/xv_race_verif.go": "acc/mailbox/xv_race_verif.go",
                      "internal/actor/context.go": _HOOKED},
        "race": True,
        "monitors_only": True,
        "timeout": {"quick": 420, "thorough": 1500},
        "what": ("child process under the Go race detector. (a) 3/20 of the budget, own system: rounds of 'tree consistency under spawn / termination overlap at the "
                 "root' - the root has exactly one (sometimes zero / two) top-level children, all killed while 2-4 goroutines call System.ActorOf with actors whose "
                 "OnPrelaunch takes 0.1-2 ms (seeded), then quiescence and the tree monitor (registry <-> root's children, both ways, = exactly the live top-level "
                 "actors; ActorOf must not fail), finally System.Stop must stop every actor ever spawned (nothing registered, every actor saw its own OnKilled). "
                 "(b) one real system stressed: 16 (quick, 17 s) / 48 (thorough) goroutines calling "
                 "System.ActorOf / Kill / Tell / Ask / FindActor / PipeTo / Entrust / Ping, Future.Result / Wait / Close / PipeTo (futures shared between "
                 "goroutines), EventStream.Subscribe / Publish / Unsubscribe / UnsubscribeAll, Ref.Clone / String / Equals on shared refs, while the actors "
                 "spawn children, stash, watch, schedule, panic (all six supervision decisions, failing restart hooks -> zombies), kill children and "
                 "themselves; then quiescence, tree check, System.Stop, tree check. Monitors: data-race (one per distinct pair of sites), fatal, panic, hang, "
                 "tree, table-stale. Model cases: the access inventory and the panic-site inventory regenerated in-process, their discipline verdicts recomputed by "
                 "Race/LocksetRun.v; (c) first of all, < 1 s: eight FORCED SCHEDULES of the actor-tree machine (coq/Race/Tree.v) on fresh real systems - the spawner "
                 "parked at the childrenLock acquisition in front of the insertion into the root's child table / inside OnPrelaunch, the root parked in front of "
                 "removeChild (hooks generated into a copy of the CURRENT context.go by accessgen -hooks, overlay) - spawn, spawn-kill-respawn, duplicate name, late "
                 "notice after name re-use, kill inside the registered-not-inserted window (notice handled before / after the insertion), kill at the registration "
                 "re-check inside the insertion's critical section (child dead / child parked in `killing`), a RESTART in progress inside the window (state word "
                 "killed, still registered), root dying inside the checked-not-registered window (System.Stop / Kill(root)); each emits (schedule in machine labels, observed registry / child table by object "
                 "identity / state words) as a case which run_race replays on the machine; monitors tree-stale-root-child (regression of /repo b0e210b), "
                 "tree-orphan-under-dead-root (regression of /repo 6438ab6), tree; (d) every quiescent snapshot of (a) and (b) (<= 1200 nodes) is also a "
                 "case for the model's consistency check (Race/Tree.v snap_violations); (e) 0.6 s, own system: duplicate-name rounds (60 quick / 600 thorough) - 2-4 goroutines "
                 "released from a barrier call System.ActorOf with the SAME explicit name and an OnPrelaunch of 1-3 ms, fresh name per round: exactly one call may succeed and its actor "
                 "is the one registered and in the root's table (monitor tree-duplicate-name; theorem C10_tree_registration_unique), tree monitor at quiescence, every successful "
                 "spawn sees its own OnKilled after System.Stop"),
    },
}

PROPERTIES = {
    "C10": {
        "components": ["race"],
        "pregen": ["bin/gen_access"],
        # `stop-failed` (System.Stop returned an error because some actor never terminated) is not a statement of C10
        # (C06 / C07 / C09 are about termination); it is reported in the evidence info but does not decide this property
        "monitor_filter": r"^(data-race|harness-race|fatal|panic|hang|tree|tree-stale-root-child|tree-orphan-under-dead-root|tree-duplicate-name|table-stale|inventory|child-died)$",
        "rule": ("obligations: (1) the lock-set discipline and (3) the panic-site discipline evaluated by vm_compute on coq/Generated/AccessTable.v (access_table, "
                 "panic_table); (2) the tree theorems are by induction over all schedules of the actor-tree machine (no bound). Cases: one per forced schedule (non-trivial), one "
                 "per quiescent snapshot (non-trivial = at least one registered actor), the two inventories. Details of (1): regenerated before the Coq step from the tree "
                 "under test (every read/write site of the 22 shared location classes of DESIGN 4-C10 with function, R/W, atomic?, locks lexically held, "
                 "owner role, publication phase); the bound is the table. Search: a seeded stress of the real system under -race; the seed fixes the "
                 "callers' operation streams and the actors' choices, the interleaving is the Go scheduler's (not replayable exactly: a replay re-runs the same "
                 "seed and tier). One model case per run (the inventory and the Go-side discipline verdict, recomputed by the extracted model and by vm_compute); "
                 "non-trivial = the inventory is non-empty"),
        "modelled_not_verified": [
            "TREE machine (Race/Tree.v): hand-written model of the code paths that write System.actorContexts / Context.children / Context.state (mapping step <-> code in the "
            "file header); one sync.Map operation / one childrenLock critical section / one atomic operation = one step (granularity = what the access inventory reports for these "
            "fields); user code, supervision decisions, mailbox contents and the order of notices are nondeterministic (a superset of the code's behaviours: sound for the invariants; "
            "no refutation rests on it); the root is never restarted (it has no supervisor; LResurrect / LZombie need a parent); C01 (one handler at a time per actor) is assumed as in the lock-set machine; a handler "
            "that calls System.ActorOf is modelled as an external thread; the history variable t_pub (registered at some time) guards an actor's own steps",
            "the tie of the tree machine is by FINAL TABLES of eleven forced schedules and by the consistency verdict of quiescent snapshots, not a lock-step of every micro-step "
            "(only the lock acquisitions and the synchronised reads in if-statements of context.go carry hooks); the hooks are one atomic load each and are armed only inside the forced-schedule scenarios",
            "PANIC sites: the guards (lock in the must-hold set in the matching mode; map established non-nil on every path; close in the claimed phase of a once-event) are the "
            "translator's lexical must-analysis (same limits as the lock tracking); not classified: nil dereferences, unchecked type assertions (Ask with a nil / foreign ActorRef "
            "panics on the caller), slice indexing, user panics (C08), internal/guard's close(guardClosedSignal) (C06: own OnKilled at most once)",
            "inner maps of map-of-maps fields carry a publication discipline (event 2): sites on a fresh local before `B.f[k] = m` are after-claim, sites reached through the container "
            "are after-fire (the reference was obtained after the store: data dependence); aliases passed to in-package callees are followed with the caller's lock set, library "
            "callees are assumed to read their argument except maps.Copy / DeleteFunc / Insert / clear (first argument written)",
            "PARTIAL: the theorems are about the inventory and the discipline, not about the Go memory model; that a site's annotations (locks held, owner role, "
            "publication phase) are true at run time is the translator's claim. 'No crash' and 'tree not corrupted' are searched for by the stress harness, not proved",
            "owner role = the goroutine currently processing the actor's mailbox; at most one per actor at a time is property C01 (C01_single_consumer), assumed "
            "here (machine rule SBecome). The owner-only function list is hand-written in harness/cmd/accessgen/gen/gen.go and checked against the static call graph; "
            "exported ActorContext / Scheduler methods are owner-only by vivid's documented contract",
            "M1/M2: sync/atomic operations, sync.Map methods and channel operations are atomic accesses; sync.Mutex / sync.RWMutex give mutual exclusion (Lock exclusive, RLock shared)",
            "lexical lock tracking (per function, must-hold intersection at joins, same-base-expression rule, closures start with nothing held, caller-held locks unknown) errs "
            "towards false alarms except: base variable re-assigned between Lock and access, a callee/closure releasing the caller's lock, Unlock through an alias, contents of a "
            "field escaping into locals/structs/results and used after Unlock (followed: local aliases of inner maps, and local aliases of a tracked map field itself, "
            "obtained by `x := B.f` or from a method whose return statement is `return R.f`) - these can hide a race from the table",
            "container aliases: an access through a local alias of a tracked map gets credit for a lock of the same base only while it is the SAME acquisition under which the "
            "alias was read from the field (a table captured in one critical section and used in a later one may be detached from the field: time-of-check/time-of-use); "
            "this is conservative - it also flags a stale alias of a field that is in fact never re-assigned; aliases stored in structs / returned to callers other than through a "
            "`return R.f` helper are not followed (aliases passed to in-package callees ARE followed)",
            "accesses through reflection, unsafe, third-party code, or packages other than internal/actor, internal/future, internal/remoting are not inventoried; "
            "composite-literal initialisers (construction before sharing) are not accesses",
            "the once-published discipline (Future.err / message: written by the winner of closed.CompareAndSwap(false,true) before close(done), read by others after <-done) "
            "is recognised syntactically (gate / close / receive statements of the same base expression)",
        ],
    },
}

META = {
    "C10": {
        "text": ("PARTIAL. Kernel-checked: a generic lock-set theorem (Race/Lockset.v, LocksetProofs.v) - for every access table and every population of threads, object "
                 "instances and schedules of an abstract machine with RWMutex locks, per-actor owner goroutines and once-only publication events, if every location class is "
                 "atomic-only, or under one common lock (writes exclusive, reads shared), or owner-goroutine-only, or once-published, or never written, then no reachable state "
                 "has two threads in the middle of conflicting accesses - instantiated by vm_compute on the access inventory that a go/ast + go/types translator regenerates "
                 "from the tree under test before every check (22 location classes: Context.children/watchers/stash/state/zombie/restarting, System.futureAgents outer+inner, "
                 "actorContexts, eventStream.subscribers/subscriberTypes outer+inner, Future.closed/err/message/forwarders/done/timer, Ref.cache, MailboxCentral.mailboxes, "
                 "Scheduler.jobKeys; a theorem also checks that every class has at least one site). If the table violates the discipline the proof breaks and the check names "
                 "the sites. Search on the real code: a 20 s / 5 min stress of one system under the Go race detector overlapping all documented-concurrent API calls with spawn, "
                 "child death, restart, stop, zombies; monitors for race reports (normalised to the pair of vivid sites), runtime fatal errors, escaped panics, hangs and "
                 "registry/children/parent consistency at quiescence and after Stop; plus rounds aimed at the root's child table (all top-level children of the root "
                 "terminate while System.ActorOf calls with slow OnPrelaunch are in flight; tree monitor after every round; Stop stops everything). The inventory follows local aliases "
                 "of a tracked map (also through a `return R.f` helper): a lock counts for such an access only within the critical section in which the alias was read "
                 "(a table captured earlier and written under a later acquisition is reported as unprotected: detached-table TOCTOU). "
                 "TREE (C10_tree_*): an abstract machine of the three tables that are the actor tree (registry, child tables, state words) with one step per sync.Map operation / "
                 "childrenLock critical section / atomic operation of Context.ActorOf, System.ActorOf (actorOfLock, caller's goroutine), onKill / onRestart, checkAndMarkKilled, "
                 "handleRestart (resurrect / zombie), the zombie release, cleanupIfNotRestarting (registry delete, notice to the parent), handleChildDeath (removeChild by reference "
                 "identity) and the dead-letter gate - any number of actors, threads, re-used names, every schedule. Proved by an inductive invariant of 20 clauses: below every parent that is not dead - the root included - "
                 "the tree is never corrupted (in-flight form in every reachable state; at quiescence registry <-> children <-> parent agree exactly: the root's table never keeps a "
                 "dead context); below every non-root parent additionally no registered actor has a dead parent; for every parent: registry soundness, actorOfLock serialises root "
                 "spawns, nobody deletes another context's registration. Two root defects found with the machine are repaired in /repo and kept as regression schedules: the stale "
                 "root entry (b0e210b: the insertion re-checks the REGISTRATION inside its critical section - a candidate testing the state word was rejected by the forced schedule "
                 "restart-in-progress; C10_tree_former_stale_child_schedule_repaired) and the orphan under a dead root (6438ab6). Not proved: that an actor registered under an "
                 "already dead root disappears again (liveness), and a dead root's table may keep such a late child's entry. "
                 "PANIC SITES (C10_panic_*): 38 sites (unlock of an unlocked mutex, close of a closed channel, nil-map write) inventoried with their guards; the discipline is evaluated on "
                 "the generated table; generic theorem: a channel closed only as the fire of one once-event is never closed twice nor sent on afterwards."),
        "design_ref": "DESIGN.md section 4 C10, section 2.4.5",
        "note": ("Trusted: Coq kernel + vm_compute; the translator (lexical lock tracking, role list, non-nil must-analysis, hook placement) and its documented blind spots; the hand-written tree "
                 "machine (tied by forced schedules and snapshots); the Go race detector (search only); "
                 "C01_single_consumer as an assumption. Found and fixed while building: data race on Future.timer between NewFuture and the timeout goroutine "
                 "(commit 330d607; caught by both the discipline and -race)."),
        "technique": ("Coq proof (inductive invariants of three abstract machines: access machine / lock-set soundness, actor-tree machine over all interleavings, channel machine) + generated finite "
                      "instances checked by vm_compute + forced window schedules replayed on the model + stress under the Go race detector"),
    },
}
