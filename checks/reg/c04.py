"""C04 — every Ask completes exactly once (micro-step model of one Ask; lock-step traces of the instrumented real code)."""

COMPONENTS = {
    "future": {
        "coq_run_module": "Future.FutRun",
        "accessors": {"internal/future/xv_fut_verif.go": "acc/future/xv_fut_verif.go",
                      "internal/actor/xv_ask_verif.go": "acc/actor/xv_ask_verif.go"},
        "instrument": {"profile": "future", "files": ["internal/future/future.go", "internal/actor/context.go"]},
        "what": "placeholder",
    },
}

PROPERTIES = {
    "C04": {
        "components": ["future"],
        "rule": "placeholder",
        "modelled_not_verified": [],
    },
}

META = {"C04": {"text": "placeholder", "design_ref": "DESIGN.md section 4 C04", "note": "", "technique": ""}}
