"""C04 — every Ask completes exactly once (micro-step model of one Ask; lock-step traces of the instrumented real code)."""

COMPONENTS = {
    "future": {
        "coq_run_module": "Future.FutRun",
        "accessors": {"internal/future/xv_fut_verif.go": "acc/future/xv_fut_verif.go",
                      "internal/actor/xv_ask_verif.go": "acc/actor/xv_ask_verif.go"},
        "instrument": {"profile": "future", "files": ["internal/future/future.go", "internal/actor/context.go"]},
        "what": ("one real Ask under the controlled scheduler: the real (*Context).ask and the real future.Future (both re-instrumented from the "
                 "current source: a scheduling point before NewFuture, appendFuture, every closed.Load/CAS, the err/message assignment, close(done), "
                 "closer(), every mu.Lock, every <-done, every liaison.Tell; time.AfterFunc -> virtual timer thread), the real System future tables "
                 "(appendFuture, removeFuture, removeFuturesByAgentPath, findMailbox) and the real Context.Tell; only the recipient / forwarder / "
                 "foreign-actor / root mailboxes are recording fakes. Every step's (label, closed, err, message, done, |forwarders|, registered?, "
                 "|registry|, #PipeResults, #returns, #replies routed, ask returned?) plus the PipeResults, Result/Wait values and routing log are "
                 "replayed on Future/FutModel.v"),
    },
    "ask": {
        "coq_run_module": "Future.FutRun",
        "cmd": "ask",
        "run": "run_future",
        "monitors_only": True,
        "accessors": {"internal/actor/xv_ask_verif.go": "acc/actor/xv_ask_verif.go",
                      "internal/future/xv_fut_verif.go": "acc/future/xv_fut_verif.go"},
        "what": ("a real started ActorSystem through the public API, real goroutines and real time: many concurrent Asks (replies, tiny and large "
                 "timeouts, askers killed before the reply, PipeTo; name reuse: generations of same-named short-lived askers whose Asks end by timeout / "
                 "death, late replies to the earlier generations released while the next generation's Asks are pending) - monitors only: every "
                 "request and reply carries a unique id; each future completes with the reply produced for ITS request or its own timeout / dead "
                 "error, afterwards actorContexts / futureAgents hold no future entry"),
    },
}

PROPERTIES = {
    "C04": {
        "components": ["future", "ask"],
        "rule": ("component future: schedules of ONE real Ask under the controlled scheduler - depth-first enumeration with a preemption bound (2 quick / 3 "
                 "thorough) over 14 hand-picked populations (repliers, timer on/off, Close, asker death, PipeTo with 1-2 forwarders, Result/Wait, replies "
                 "to other paths, other actors registering/unregistering) plus seeded random populations (<=3 repliers incl. error-valued and nil "
                 "replies, timer on/off, <=2 Close, death, <=2 PipeTo, <=2 waiters, foreign registry traffic) under random and sticky schedulers; one "
                 "case = one complete schedule compared step by step with the model. distinct = distinct (population, schedule); non-trivial = at "
                 "least two context switches. component ask: monitors only (real system, real time)"),
        "modelled_not_verified": [
            "M1: sync/atomic operations are sequentially consistent; sync.Mutex gives mutual exclusion; M3: goroutine scheduling = arbitrary interleaving of the instrumented steps",
            "appendFuture / removeFuture / removeFuturesByAgentPath / findMailbox are each ONE step (system.go is not instrumented: its sync.Map operation and its futureLock section are not interleaved with other threads)",
            "the reads of f.message / f.err are not scheduling points of their own: they happen in the step of the preceding <-done / closed.Load (coarser than the code, same outcomes: only one of the two fields is ever written, once)",
            "M6: time.AfterFunc fires no earlier than its duration (virtual clock: the timer's fire step is enabled only at now >= armed_at + timeout; the controlled scheduler decides when it fires)",
            "M7 (explicit hypothesis M7_agent_path_fresh of the C04_reply_routing_* theorems; C04_reply_routing_needs_M7 shows it is needed): the agent path of a request is unique among all requests of all incarnations of all actors (uuid): nobody else registers under the future's path, the future is registered under no other path, and a reply can be addressed to it only by someone who received THIS request. On the implementation the class 'paths unique only per incarnation' is searched by the name-reuse scenarios of component ask (monitor reply-misrouted)",
            "one focus future per model instance; every other Ask / actor of the system is environment traffic on other registry paths",
            "forwarders named by the PipeTo calls of one future are pairwise distinct in C04_forwarders_once (ActorRefs.Unique is modelled; a forwarder named twice may legitimately receive one or two results)",
            "fair scheduling by the Go runtime (an enabled goroutine eventually runs) for 'eventually completes'",
        ],
    },
}

META = {
    "C04": {
        "text": ("Inductive invariants over ALL interleavings of ANY population of repliers / Close callers / asker death / PipeTo callers / Result-Wait callers / "
                 "foreign registry users, for every timeout, of a micro-step Gallina model of one Ask (Context.ask, future.Future, the System future table, a "
                 "virtual clock): one CAS winner, result written once before done and stable afterwards, readers see only the final result, terminal "
                 "states are completed whenever anything reached the future or a timer was armed (timer never early), only Result/Wait of a never-completed "
                 "future can block, no registry entry is left, every named forwarder gets exactly one PipeResult with the final result, replies are routed "
                 "by path. The model is tied to the code by lock-step replay: ask and future.go are re-instrumented from the current source on every run and "
                 "driven by a controlled scheduler with a virtual timer (DFS with preemption bound + random); every step's label and projected shared state "
                 "must equal the model's. Two defects found by this check (PipeTo forwarding (nil,nil); registration leak when the timer fires before "
                 "appendFuture) were fixed in /repo (1b346be, 6668c14); the monitors that found them stay armed."),
        "design_ref": "DESIGN.md section 4 C04",
        "note": ("Trusted: Coq kernel; extraction; AST instrumenter + controlled scheduler (harness/instr, harness/vsched); the recording fake mailboxes; "
                 "M1/M3 (SC atomics, interleaving), M6 (timers not early), M7 (fresh uuid); system.go's table functions as single steps; Go scheduler fairness for liveness."),
        "technique": "Coq proof (inductive invariants of a small-step concurrent machine with ghost history, all populations and schedules) + lock-step correspondence against the instrumented real code under a controlled scheduler + real-time monitors on a real system",
    },
}
