"""C04 — every Ask completes exactly once (micro-step model of one Ask; lock-step traces of the instrumented real code)."""

COMPONENTS = {
    "future": {
        "coq_run_module": "Future.FutRun",
        "accessors": {"internal/future/xv_fut_verif.go": "acc/future/xv_fut_verif.go",
                      "internal/actor/xv_ask_verif.go": "acc/actor/xv_ask_verif.go"},
        "instrument": {"profile": "futops", "files": ["internal/future/future.go", "internal/actor/context.go"]},
        "what": ("one real Ask under the controlled scheduler: the real (*Context).ask and the real future.Future (both re-instrumented from the "
                 "current source, steps selected and classified by operation, not by function name: a scheduling point before NewFuture, appendFuture, every closed.Load/CAS, the err/message assignment, close(done), "
                 "closer(), every mu.Lock, every <-done, every liaison.Tell; time.AfterFunc -> virtual timer thread), the real System future tables "
                 "(appendFuture, removeFuture, removeFuturesByAgentPath, findMailbox) and the real Context.Tell; only the recipient / forwarder / "
                 "foreign-actor / root mailboxes are recording fakes. Every step's (label, closed, err, message, done, |forwarders|, registered?, "
                 "|registry|, #PipeResults, #returns, #replies routed, ask returned?) plus the PipeResults, Result/Wait values and routing log are "
                 "replayed on Future/FutModel.v"),
    },
    "futsys": {
        "coq_run_module": "Future.SysRun",
        "accessors": {"internal/future/xv_fut_verif.go": "acc/future/xv_fut_verif.go",
                      "internal/actor/xv_ask_verif.go": "acc/actor/xv_ask_verif.go",
                      "internal/actor/xv_futsys_verif.go": "acc/actor/xv_futsys_verif.go"},
        "instrument": {"profile": "futsys", "files": ["internal/future/future.go", "internal/actor/context.go", "internal/actor/system.go"]},
        "what": ("MANY concurrent real Asks sharing the future tables of one System under the controlled scheduler: the real (*Context).ask, the real "
                 "future.Future and the real table functions of system.go, all three files re-instrumented from the current source (profile futsys: "
                 "every actorContexts Store / Delete / Load, every futureLock section, NewFuture, the CAS / Load of closed, the err/message assignment, "
                 "close(done), f.mu, every <-done; time.AfterFunc -> virtual timer thread). Threads run scripts: several Asks per asker path (one actor, "
                 "the root context from several goroutines, successive incarnations of a re-used name), repliers, Close / Result / Wait callers, kill "
                 "clean-ups (removeFuturesByAgentPath) possibly followed by further Asks of the dying actor. Every step's label, table sizes "
                 "(futureAgents keys / entries, futures in actorContexts) and the (closed, err, message, done, in actorContexts?, in futureAgents?) of "
                 "every visible future are replayed on Future/SysModel.v; the map iteration order of each clean-up is reconstructed from the trace"),
    },
    "ask": {
        "coq_run_module": "Future.FutRun",
        "cmd": "ask",
        "run": "run_future",
        "monitors_only": True,
        "public_api_fallback": True,
        "accessors": {"internal/actor/xv_ask_verif.go": "acc/actor/xv_ask_verif.go",
                      "internal/future/xv_fut_verif.go": "acc/future/xv_fut_verif.go"},
        "what": ("a real started ActorSystem through the public API, real goroutines and real time: many concurrent Asks (replies, tiny and large "
                 "timeouts, askers killed before the reply, PipeTo; name reuse: generations of same-named short-lived askers whose Asks end by timeout / "
                 "death, late replies to the earlier generations released while the next generation's Asks are pending; asker death with pending "
                 "Asks racing completions: several goroutines Ask through one asker context while its only pending Ask completes by reply / Close, "
                 "then the asker is killed - every pending Ask must end promptly with actor-dead; Asks issued by the asker's own OnKill / OnKilled "
                 "handler; wait-in-kill: an Ask issued before the kill (timeout 1 h) is awaited with a harness-side bound by the asker's own OnKill "
                 "handler / by a child's OnKill handler and must already be failed with actor-dead - monitor c04-pending-ask-not-failed-at-kill; "
                 "this ties the POSITION of the first clean-up of the kill chain: in the model it is ord1 of [incarnation a pre ord1 mid ord2], "
                 "before the handlers) - monitors only: every request and reply carries a unique id; each future completes with the reply produced for ITS "
                 "request or its own timeout / dead error, afterwards actorContexts / futureAgents hold no future entry (tables read through "
                 "reflection-based accessors; when they do not compile the command is built without them and the public-API monitors still run)"),
    },
}

PROPERTIES = {
    "C04": {
        "components": ["future", "futsys", "ask"],
        "coq_files": ["Properties/C04.v", "Properties/C04_system.v"],
        "rule": ("component future: schedules of ONE real Ask under the controlled scheduler - depth-first enumeration with a preemption bound (2 quick / 3 "
                 "thorough) over 14 hand-picked populations (repliers, timer on/off, Close, asker death, PipeTo with 1-2 forwarders, Result/Wait, replies "
                 "to other paths, other actors registering/unregistering) plus seeded random populations (<=3 repliers incl. error-valued and nil "
                 "replies, timer on/off, <=2 Close, death, <=2 PipeTo, <=2 waiters, foreign registry traffic) under random and sticky schedulers; one "
                 "case = one complete schedule compared step by step with the model. distinct = distinct (population, schedule); non-trivial = at "
                 "least two context switches. component futsys: schedules of MANY real Asks sharing one System's tables under the controlled "
                 "scheduler with system.go instrumented - DFS (preemption bound 2 quick / 3 thorough) over 12 hand-picked script populations (split "
                 "appendFuture / removeFuture vs reply, two Asks of one actor closed by its death in map order, System.Ask from two goroutines vs "
                 "the death of the root path, two askers, name reuse with a late reply, the kill chain of an incarnation (clean-up, Asks of its handlers with / without timer, second clean-up), "
                 "timer vs death vs Close, asker death with pending Asks racing completions) plus seeded random populations (1-3 actor goroutines "
                 "with 1-2 Asks each, optional kill clean-up optionally followed by another Ask, <=3 repliers incl. error / nil values, Close, "
                 "Result/Wait, an independent clean-up; every fourth population is of the racing class) under random and sticky schedulers; "
                 "distinct = distinct (scripts with model ids and reconstructed iteration orders, schedule); non-trivial = at least two context "
                 "switches. component ask: monitors only (real system, real time; incl. 250 / 6000 trials of asker death with pending Asks racing "
                 "completions and the Asks issued by the asker's own kill processing)"),
        "modelled_not_verified": [
            "M1: sync/atomic operations are sequentially consistent; sync.Mutex gives mutual exclusion; M3: goroutine scheduling = arbitrary interleaving of the instrumented steps",
            "single-Ask model (component future, Properties/C04.v) only: appendFuture / removeFuture / removeFuturesByAgentPath / findMailbox are each ONE step there. The system model (component futsys, Properties/C04_system.v) has them at their own granularity - every actorContexts Store / Delete / Load and every futureLock section is a step of its own, system.go is instrumented - so this coarsening is no longer part of the trusted base of the exactly-once / routing / registration / death clauses; it remains for the PipeTo / forwarder clauses, which never touch the tables",
            "system model: one futureLock critical section is one atomic step (M1: it contains every access to futureAgents); a sync.Map operation is one atomic step (M2)",
            "system model: the iteration order of the Go map in removeFuturesByAgentPath is an arbitrary order given by the environment (the [ord] of ODeath; every theorem holds for every order; the harness reconstructs the order of each run from the trace)",
            "system model: PipeTo / forwarders are not part of it (per future, proved in the single-Ask model for every population); the recipient of the request is a recording fake; a reply that finds nothing registered goes to the dead-letter mailbox (TellSelf of the root: no further table access, as the lock-step showed)",
            "the reads of f.message / f.err are not scheduling points of their own: they happen in the step of the preceding <-done / closed.Load (coarser than the code, same outcomes: only one of the two fields is ever written, once)",
            "M6: time.AfterFunc fires no earlier than its duration (virtual clock: the timer's fire step is enabled only at now >= armed_at + timeout; the controlled scheduler decides when it fires)",
            "system model: M7 is built in - the n-th NewFuture creates a fresh future registered under a fresh path (dynamic allocation); the explicit-hypothesis form and the proof that it is needed stay in Properties/C04.v",
            "M7 (explicit hypothesis M7_agent_path_fresh of the C04_reply_routing_* theorems; C04_reply_routing_needs_M7 shows it is needed): the agent path of a request is unique among all requests of all incarnations of all actors (uuid): nobody else registers under the future's path, the future is registered under no other path, and a reply can be addressed to it only by someone who received THIS request. On the implementation the class 'paths unique only per incarnation' is searched by the name-reuse scenarios of component ask (monitor reply-misrouted)",
            "one focus future per model instance; every other Ask / actor of the system is environment traffic on other registry paths",
            "forwarders named by the PipeTo calls of one future are pairwise distinct in C04_forwarders_once (ActorRefs.Unique is modelled; a forwarder named twice may legitimately receive one or two results)",
            "fair scheduling by the Go runtime (an enabled goroutine eventually runs) for 'eventually completes'",
        ],
    },
}

META = {
    "C04": {
        "text": ("Two micro-step Gallina models, both proved by inductive invariants over ALL interleavings and tied to the code by lock-step replay. "
                 "(1) ONE Ask with ANY population of repliers / Close callers / asker death / PipeTo callers / Result-Wait callers / foreign registry "
                 "users, every timeout (Properties/C04.v): one CAS winner, result written once before done and stable afterwards, readers see only the "
                 "final result, terminal states are completed whenever anything reached the future or a timer was armed (timer never early), only "
                 "Result/Wait of a never-completed future can block, no registry entry is left, every named forwarder gets exactly one PipeResult "
                 "with the final result, replies are routed by path. (2) ANY NUMBER of concurrent Asks sharing the System's tables, the tables at "
                 "their own granularity (actorContexts Store / Delete / Load and every futureLock section are steps of their own), any number of "
                 "askers, several Asks per asker path (one actor, the root context from many goroutines, re-used names), kill clean-ups in any "
                 "map-iteration order, timers (Properties/C04_system.v): per future exactly-once, own reply / own timeout / own asker's death "
                 "(C04_sys_completes_origin, C04_sys_own_reply, C04_sys_error_origin), every returned, not yet completing Ask is in both tables, a "
                 "kill clean-up completes every Ask that had returned when it copied the keys (C04_sys_death_completes); when the kill chain of an "
                 "incarnation (clean-up, OnKill / OnKilled handlers that may Ask again, second clean-up after the last handler: /repo 3f0f6ad) has "
                 "finished, every Ask the incarnation ever issued is completed by somebody and at quiescence done and registered nowhere "
                 "(C04_sys_incarnation_asks_completed, C04_sys_incarnation_quiescent); nothing is left "
                 "registered and both tables are empty at quiescence, nobody blocks but waiters of never-completed futures. The second clean-up is "
                 "needed (C04_sys_second_cleanup_needed: without it an Ask of the OnKill / OnKilled handler without timer is never completed and stays "
                 "registered - the defect C04-ask-during-kill found by this check and repaired in /repo 3f0f6ad; regression monitor "
                 "c04-ask-during-kill-never-completed). The tie identifies a step by its operation class (what it does to which field / table), not by the name of the "
                 "enclosing function; every step's class and projected shared state must equal the model's. Three defects found by this check "
                 "(PipeTo forwarding (nil,nil); registration leak when the timer fires before appendFuture; Asks of the kill chain never completed) were fixed in /repo (1b346be, 6668c14, 3f0f6ad); "
                 "the monitors that found them stay armed."),
        "design_ref": "DESIGN.md section 4 C04",
        "note": ("Trusted: Coq kernel; extraction; AST instrumenter + controlled scheduler (harness/instr, harness/vsched); the recording fake mailboxes; "
                 "the reflection-based registry accessors; M1/M2/M3 (SC atomics, critical section = one step, sync.Map atomic, interleaving), M6 (timers "
                 "not early), M7 (fresh uuid); map iteration order = arbitrary; for the PipeTo clauses only: system.go's table functions as single "
                 "steps; Go scheduler fairness for liveness."),
        "technique": "Coq proof (inductive invariants of small-step concurrent machines with ghost history, all populations and schedules) + lock-step correspondence against the instrumented real code under a controlled scheduler (steps identified by operation class) + real-time monitors on a real system",
    },
}
