"""ref — actor references as strings (internal/utils/ref.go, internal/utils/net_addr.go IsDomainName, internal/actor/ref.go).

A new component `ref`, attached to C15 as an additional component with its own theorem file Properties/C15_ref.v
(the registry merges the PROPERTIES / META entries of several groups: see checks/registry.py). It also serves C12 (the
ActorRef factory that the codec model keeps as an uninterpreted `newref`) and C03 (references obtained by parsing)."""

COMPONENTS = {
    "ref": {
        "coq_run_module": "Ref.RefRun",
        "timeout": {"quick": 300, "thorough": 3000},
        "what": ("utils.NormalizeAddress / NormalizePath / IsValidHost / IsValidPort / IsValidPath / IsDomainName / FormatRefString / JoinPath and actor.NewRef / ParseRef / "
                 "Ref.String / Child / Equals / Clone, together with the standard-library functions they are built from (strings.TrimSpace, net.SplitHostPort, net.ParseIP, "
                 "strconv.Atoi inside IsValidPort, the domain and path regular expressions), each compared with Ref/RefModel.v at the level of bytes (no oracle); "
                 "monitors on the implementation: a reference rebuilt from its (address, path) strings is the same reference (ref-rebuild-fails / ref-rebuild-differs), distinct "
                 "references print differently (ref-string-collision), a printed NON-ambiguous reference parses back to itself and no printed reference "
                 "ever parses as another one (ref-string-roundtrip, ref-string-names-other-ref; the ambiguous references, whose printed form ParseRef rejects, are a report-only "
                 "observation counted in the report's info), Clone / Equals agree with (address, path) equality "
                 "(ref-clone-differs, ref-equals-inconsistent, ref-string-vs-equals), Child stays under its parent and keeps single separators (child-not-under-parent, child-double-separator), JoinPath keeps its base and ignores "
                 "leading slashes of the segment and keeps single separators (join-drops-base, join-leading-slash, join-double-separator); finally a running actor system with actors named \"a:b\", \"a:b:\", \"::\" and a child \"c\" "
                 "each: System.FindActor(child.String()) must find the live child unless its reference is ambiguous (live-actor-not-found-by-its-string; the ambiguous ones are recorded in info.system)"),
    },
}

PROPERTIES = {
    "C15": {
        "components": ["ref"],
        "coq_files": ["Properties/C15_ref.v"],
        "rule": ("ref component: (0) fixed: the documented forms, the witness of the ParseRef observation, domains of exactly 249..257 bytes and labels of 61..65 runes (with U+212A / U+017F inside); (1) exhaustive: every string of length <= 4 (quick) / 5 (thorough) over the 12-symbol alphabet ':' '/' '.' '[' ']' '%' ' ' '1' 'a' '-' '0' 'f' - one case per string "
                 "with the results of TrimSpace, SplitHostPort, ParseIP, IsDomainName, IsValidHost, IsValidPort, IsValidPath, NormalizeAddress, NormalizePath, ParseRef; (2) exhaustive: every "
                 "sequence of <= 3 tokens over 26 multi-byte tokens ('::', ':', '1.2.3.4', brackets, '80', '65535', '65536', 'ffff', '+', '%41', ':/', U+0085, U+2000, a truncated space "
                 "encoding, U+212A, U+017F, a 7-group IPv6 prefix, ...), thorough also <= 4 tokens over 17; (3) 21 addresses x every path of <= 3 (thorough 4) tokens over 11 path tokens (quick: all 21 for paths up to 3 bytes and for host / host:80, "
                 "every third pair otherwise): "
                 "FormatRefString, NewRef, String, ParseRef(String), NewRef of the result, Clone/Equals; (4) 10 bases x every segment of <= 3 (thorough 4) tokens: JoinPath, and Child on 8 "
                 "references; (5) all ordered pairs of 9 references: Equals; (6) seeded random structured inputs, 6000 quick / 300000 thorough: domains with labels around the 63-rune and names "
                 "around the 253-byte limits, dotted quads with leading zeros / 256 / missing fields, IPv6 with 0..9 groups, '::' anywhere, 5-digit groups, embedded dotted quads, zones, ports "
                 "with signs / leading zeros / 65535..65536 / beyond int64, paths of up to 400 valid bytes with ':' ':/' '%xx' and invalid bytes, all wrapped in ASCII / Unicode / broken "
                 "space sequences and mutated by one byte; (7) four actors on a running system. non-trivial = something is accepted (a valid host / port / path / address / reference, a "
                 "successful split) or TrimSpace changes the string; distinct = distinct input terms"),
        "modelled_not_verified": [
            "references: Ref/RefModel.v models the Go functions AND the library functions below them by hand at the level of bytes (strings.TrimSpace = unicode.IsSpace runes in UTF-8, "
            "net.SplitHostPort, net.ParseIP = netip.ParseAddr without zone incl. parseIPv6, strconv.Atoi up to the range test, the two regular expressions incl. the Unicode case folding of "
            "(?i)[a-z] to U+017F / U+212A): no oracle and no hypothesis is left in Properties/C15_ref.v, the only tie to the Go code and the Go standard library is the differential run "
            "of harness/cmd/ref (the Go version in use is the one the check runs with)",
            "references: a Ref is its (address, path) pair; the mailbox cache (Ref.cache) is not part of the value (findMailbox and the cache are C03's business); AgentRef / NewAgentRef "
            "(a Child with a fresh UUID segment: M7) are covered only as far as Child is; context_initializer.initRef (url.JoinPath of the actor name) is not modelled, the running-system "
            "scenario observes it",
            "references: C15_ref_remote_kill / C15_ref_remote_watch_onkilled / C12_ref_onkill_roundtrip instantiate the other groups' theorems with newref := the modelled NewRef; all their "
            "remaining hypotheses (M5, sizes <= 64 KiB, the advertised address is a valid address) stay as stated there",
        ],
    },
}

META = {
    "C15": {
        "design_ref": "DESIGN.md section 4 C15",
        "text": ("References as strings (Properties/C15_ref.v, 34 theorems): actor.NewRef, ParseRef, String, Child, Equals and everything below them down to strings.TrimSpace, "
                 "net.SplitHostPort, net.ParseIP and the two regular expressions are modelled at the level of bytes and compared with the real functions on every run. Kernel-checked for all byte "
                 "strings: TrimSpace is idempotent and cuts space bytes only; NormalizeAddress, NormalizePath and NewRef are idempotent on their own output (this discharges the hypothesis "
                 "'NewRef accepts a reference it made unchanged' under which the transparency theorems and C12's OnKill / OnKilled round trips were stated: C15_ref_remote_kill, "
                 "C15_ref_remote_watch_onkilled, C12_ref_onkill_roundtrip have no hypothesis about NewRef left); a valid address contains no '/' and is host:port, [host]:port or a bare "
                 "domain; String is injective on valid references with an explicit left inverse; ParseRef(String r) is r, or - for exactly the references whose address has no port and whose "
                 "path has a ':' in front of its first ':/' - an address error (a report-only observation about the public helper ParseRef, outside the statement of C15: refuted with the witness "
                 "(host, /a:b:/c); never another reference); ParseRef is a retraction (whatever it "
                 "returns reparses from its own string); Child yields a valid reference at the same address whose path extends the parent's; JoinPath keeps the base, ignores leading slashes "
                 "of the segment, keeps single separators and is associative."),
        "note": ("Report-only observation (public helper ParseRef, outside the statement of C15 / C12 / C03; no monitor, counted in the report's info): ParseRef(ref.String()) fails for the "
                 "ambiguous references; on a running system a live actor named 'a:b:' with a child is not found by FindActor through its own String(). "
                 "Further report-only observations: IsDomainName accepts U+212A KELVIN SIGN and U+017F LONG S (case folding of (?i)[a-z]); port strings '+80' and '0080' are valid; "
                 "'[host]:80' with a domain in brackets is valid; '1.2.3.256' and '01.2.3.4' are valid bare addresses (domains) while '1.2.3.4' is not; Child(r, \"/\") = r for a path "
                 "ending in '/'; the error text of an invalid address always says '<empty>'."),
        "technique": "Coq proof (induction on byte strings, length induction for the rune decoders) over a hand-written byte-level model + exhaustive and random differential check against the Go code",
    },
}
