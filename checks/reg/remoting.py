"""C11 / C14 — TCP remoting: framing, delivery, faults."""

_ACC = {"internal/actor/xv_remoting_verif.go": "acc/actor/xv_remoting_verif.go",
        "internal/remoting/xv_backoff_verif.go": "acc/remoting/xv_backoff_verif.go"}

_ARGS_FRAME = {"quick": ["-mode", "frame"], "thorough": ["-mode", "frame"]}
_ARGS_LINK = {"quick": ["-mode", "link"], "thorough": ["-mode", "link"]}

COMPONENTS = {
    "frame": {
        "coq_run_module": "Remoting.RemRun",
        "cmd": "remoting",
        "accessors": _ACC,
        "args": _ARGS_FRAME,
        "timeout": {"quick": 240, "thorough": 2400},
        "what": ("two real vivid systems in one process over loopback through the harness TCP proxy (re-chunks the byte stream: pass, 1-byte, "
                 "seeded random, frame-straddling, coalescing, 64 KiB, header-split; split handshake); the exact bytes handed to the receiving "
                 "system are replayed on Remoting/Frame.v's receiver (deliveries to the actor, decoded frames, decode failures, invalid lengths); "
                 "receiver churn (harness/cmd/remoting/churn.go, own pair of systems): scripts of spawn / kill (termination awaited) / re-spawn under the same "
                 "name / first spawn at a path that already received traffic / supervision restart on the RECEIVING system, interleaved with bursts, replayed on "
                 "Remoting/Churn.v (per path: which incarnation and restart epoch received which message, which messages were dead-lettered); "
                 "first contact (harness/cmd/remoting/coldstart.go): per round a FRESH sender system and 1-2 fresh receivers, 8..16 senders (goroutines through "
                 "ActorSystem.Tell or actors through ActorContext.Tell) released from a spin barrier, each sending a short numbered burst as its very first traffic to "
                 "every address string of the round (advertised address and localhost alias of each receiver); the connection each frame travelled on (read from the "
                 "receivers' proxies) is compared with Remoting/Central.v (one mailbox = one connection per address)"),
    },
    "link": {
        "coq_run_module": "Remoting.RemRun",
        "cmd": "remoting",
        "accessors": _ACC,
        "args": _ARGS_LINK,
        "timeout": {"quick": 240, "thorough": 2400},
        "what": ("the same two systems under faults arranged by the proxy: connection cut after every byte offset of a 3-frame stream, refused and "
                 "reset connections, peer restart, injected garbage / invalid-length frames, unencodable and oversize messages; every Enqueue's "
                 "observable events (connection-failed retry counts, send-failed, sent, dead letter, dials), the byte count of every connection and "
                 "the receiver's observations are replayed on Remoting/Link.v + Frame.v; two peers (harness/cmd/remoting/twopeers.go): one sender with "
                 "ReconnectLimit 1..2 (1..4 thorough), a peer that refuses connections and a healthy peer that gets a Tell every 12 ms from its own goroutine while "
                 "the Tell to the refusing peer retries; each peer's mailbox is replayed on the sender machine separately; "
                 "back-off (harness/cmd/remoting/backoff.go, before any system runs): the REAL utils.ExponentialBackoff against Remoting/Backoff.v bit for bit - the global "
                 "math/rand source is seeded (//go:debug randseednop=0) and mirrored, the 63-bit integer behind every rand.Float64() is handed to the model: sessions of "
                 "Next / Reset / GetAttempt on vivid's two configurations (100 ms..3 s, 100 ms..10 s), boundary and random configurations, 1100 attempts without Reset "
                 "(math.Pow overflow); Try(limit, fn) with scripted outcomes of fn (all fail, fail^j then success / abort with and without error, random) for limits "
                 "-1, 0, 1, 2, 3, 5, 10, followed by one more Next() (proves how many random numbers Try consumed); a second Try on the same object after an exhausted / "
                 "successful / aborted first one; the configuration and the idle attempt counter of the objects of a live system through add-only accessors; "
                 "frames that decode but cannot be routed (harness/cmd/remoting/badrefs.go): the proxy injects well-formed envelopes whose sender / receiver reference "
                 "actor.NewRef rejects (no sender, bad port, bare IP, receiver path without '/', ...) between the frames of a healthy connection; "
                 "invalid-length frame under every split (harness/cmd/remoting/oversize.go): a raw TCP peer writes [a][length prefix 4 MiB + 1, body of zeros][b][c] "
                 "to a real system, once per split variant (everything in ONE write, prefix alone, two bytes of the prefix, prefix + 100 / 5000 body bytes, body end "
                 "coalesced with b and c, whole oversize frame then b c; thorough adds 12 random cut points); monitors only; "
                 "listener retry (harness/cmd/remoting/acceptbackoff.go, beside the other scenarios): a system is started while the harness holds its port; after 3 "
                 "(thorough 6) failed attempts to listen the port is released: the system must listen by itself and receive from another system; the delays it logged "
                 "are checked against the intervals of Backoff.v's server_cfg (attempt numbers 0, 1, 2, ..: no reset between failures); "
                 "same peer port again (harness/cmd/remoting/acceptcollision.go, beside the other scenarios): A reaches B through a forwarder that dials B from a FIXED "
                 "local address; 3 Tells, the path goes away (variants: FIN then RST 300 ms later = regression of the repaired defect C14-accept-name-collision; RST at "
                 "once; RST while B's reader actor is busy decoding a message whose payload takes the harness codec 700 ms), is re-established from the same address, "
                 "5 more Tells; per forwarded "
                 "connection the frames passed on and the frames that reached the actor are compared with Remoting/Accept.v (RemRun op 10)"),
    },
}

COMPONENTS["transparency"] = {
    "coq_run_module": "Remoting.RemRun",
    "cmd": "remoting",
    "accessors": _ACC,
    "args": {"quick": ["-mode", "transparency"], "thorough": ["-mode", "transparency"]},
    "timeout": {"quick": 240, "thorough": 1200},
    "monitors_only": True,
    "what": ("three real systems, each behind its own re-chunking proxy: remote Kill (poison and not) with watchers that have THE SAME PATH on A, on C and on B "
             "itself (every watcher exactly one OnKilled naming the target, the target exactly one OnKill naming the remote killer, reason and poison flag); "
             "Unwatch by one same-path watcher must not affect the others; remote Ping/Pong; remote Ask/Reply; PipeTo with a remote and a local forwarder for "
             "success and failure results; a Tell after the kill no longer reaches the actor; finally (harness/cmd/remoting/alias.go) Tell / Ask / Ping / Watch / Kill "
             "through refs that carry an ALIAS address of the target system (its bind address behind the proxy, localhost:PORT for 127.0.0.1:PORT): same effect as "
             "through the advertised address, the OnKilled names the advertised address, and the target system sends 0 frames to its own addresses "
             "(monitors c15-alias-not-delivered, c15-alias-self-send); before that, name reuse (harness/cmd/remoting/respawn.go): the actor at /rspN on B is "
             "addressed remotely (Tell, Ask, Ping, PipeTo with a forwarder on C, Watch from A and C, Kill from A), terminates, a new actor is spawned under the "
             "same name (2 incarnations quick / 3 thorough; the forwarder on C is re-created too) and every operation is repeated next to the same operation "
             "through B's local ref (monitors c15-remote-after-respawn:<tell|ask|ping|pipe-target|pipe-forwarder|watch|kill>, c15-local-control); "
             "boundary inputs (harness/cmd/remoting/boundary.go): Kill reasons, Ask/Reply payloads, *vivid.Error reply texts and PipeTo success/failure results whose byte "
             "lengths sit on the edges of the 1-, 2- and 4-byte length prefixes and of 64 KiB (multi-byte runes crossing byte 255/256, non-UTF-8 bytes, variadic reasons "
             "joined by the library, both poison values), each run once through a LOCAL ref on the calling system A (control) and once through the REMOTE ref to B, "
             "watchers on A and C, forwarders on C and on A (monitors c15-boundary:<kill-not-terminated|kill-onkill-count|kill-reason-differs|kill-poison-differs|"
             "kill-killer-differs|watch|ask-reply|pipe|local-control>; every detail and case term names operation, field, byte length, label, poison flag and "
             "local/remote); the proxies of this mode reset both legs when a connection is replaced (a FIN-closed accepted connection leaves its reader actor "
             "registered until it has seen the end of its stream: finding C14-accept-name-window, before /repo c1a2e19 for ever); one model "
             "case per round: the A->B byte stream phase by phase on Remoting/Churn.v (which incarnation received A's messages, which were dead-lettered on B)"),
}

_M5 = ("M5: TCP is a reliable FIFO byte stream that may split/coalesce arbitrarily and may be cut after any byte; conn.Write delivers all its bytes or a "
       "strict prefix after which nothing more arrives on that connection, and only the second case can return an error (Link.write)")

PROPERTIES = {
    "C11": {
        "components": ["frame"],
        "coq_files": ["Properties/C11.v", "Properties/C11_central.v"],
        "rule": ("rounds of concurrent sender actors (1..8 per direction, bursts up to 2000, payloads 0..1 MiB quick / just under 4 MiB thorough, every k-th "
                 "message an Ask answered by Reply) in both directions, each round on a fresh connection under one chunking mode; one case = one "
                 "connection's byte stream (as chunked by the proxy, up to 160 KiB) with everything the receiving system observed; larger streams are "
                 "judged by the monitors only (per-sender exactly-once/order/checksum at the receiver AND a wire check: the sender's recorded byte stream must "
                 "be a sequence of whole frames, every sent message once, per-sender order). Includes rounds of 6-8 concurrent senders to two target actors with "
                 "payloads mixed from 0 B .. 1 MiB (60/70/200 KiB: frames above 64 KiB) through the proxy and over a direct link. "
                 "Receiver churn (8 scripts quick / 60 thorough, one chunking mode each, child actors of a supervising host actor and a top-level actor): every step is "
                 "separated from the next by a round trip (all messages of a burst received or dead-lettered, the last message to a live actor is an Ask; kill waits for "
                 "the parent's OnKilled and FindActor failing; spawn waits for OnLaunch); one case = one script with the bytes of every traffic phase, compared per path "
                 "on (incarnation, epoch, message) deliveries and dead letters; monitor c11-live-actor-not-delivered: a message sent over the healthy link to a path where "
                 "an actor is registered must reach THAT incarnation exactly once, in order, intact. "
                 "First contact (12 rounds quick / 150 thorough, fresh systems each; senders, burst, API, number of receivers from the seed): monitors "
                 "c11-cold-start-order (per sender and address string the receiving actor sees exactly 0,1,2,.. once each, in order, intact) and "
                 "c11-cold-start-connections (all frames to ONE address string over the healthy link travelled on ONE connection - deterministic whenever a second "
                 "mailbox was made for an address, also when no reorder shows); one case = one round: the messages in the order (address, sender, seq) with the "
                 "connection each travelled on, numbered by first appearance, against Central.central_ids. "
                 "non-trivial = more than one frame and more than one chunk; distinct = distinct byte streams/chunkings"),
        "modelled_not_verified": [
            _M5,
            "codec round trip dec (enc m) = Some m is a hypothesis of C11_exactly_once_in_order (Section hypothesis codec_roundtrip; the envelope layout "
            "itself is proved in C11_envelope_roundtrip, the message payload is C12's theorem / the user codec's contract M9)",
            "utils.NormalizeAddress / NormalizePath idempotence is a hypothesis of C11_sender_ref (norm_addr_idem, norm_path_idem), checked by differential "
            "testing on the implementation each run",
            "bufio.Reader + io.ReadFull = an unbounded buffer refilled by arbitrary reads (Frame.read_full)",
            "receiver churn: the steps of a script are sequential (Churn.run_churn; the harness separates them by round trips); a kill / spawn racing with traffic "
            "in flight is not modelled; the registry is actorContexts restricted to actors (ActorOf = LoadOrStore, final kill = Delete, restart keeps the entry)",
            "first contact (Remoting/Central.v): MailboxCentral.GetOrCreate is ONE atomic step (its whole body holds rmc.lock; M1) and Mailbox.Enqueue is one atomic "
            "step per mailbox (connectionLock held from the first to the last byte of the frame; M1); the schedule of these steps over any number of sender threads is "
            "universally quantified; System.findMailbox's other branches (local refs, closed context, remoting disabled) are not part of this model; the link is "
            "healthy (one connection per mailbox: reconnects are C14's Link.v); the orphan-mailbox machine (Central.orun) is a hypothetical variant used only in "
            "C11_orphan_mailbox_reorders_refuted",
        ],
    },
    "C14": {
        "components": ["link"],
        "coq_files": ["Properties/C14.v", "Properties/C14_backoff.v"],
        "rule": ("fault scenarios on two real systems: cut after every byte offset of a 3-frame stream (ReconnectLimit 0 exhaustively; limit 2 sampled in the quick "
                 "tier, exhaustively in the thorough tier), cut inside the handshake, refused dials, reset-after-accept, peer restart, injected undecodable / "
                 "invalid-length frames, unencodable and > 4 MiB messages, late delivery on an old connection, two peers (one refusing, one healthy with steady "
                 "traffic; monitors c14-no-dead-letter-after-limit with a real-time bound of max(15 s, 10 x nominal back-off sum), c14-retry-count, "
                 "c14-healthy-peer-disturbed); invalid-length frame coalesced with its body and the following frames / split at every interesting point (8 variants "
                 "quick, 20 thorough): monitor c14-oversize-frame-desyncs-stream (the actor must receive a, b, c exactly once, in order, intact: a frame with an invalid "
                 "length is skipped exactly and neither stops nor corrupts the frames behind it); injected envelopes with rejected sender / receiver references (m0 | BAD | m1 | BAD BAD | m2 ..: monitor "
                 "c14-unroutable-stops-stream: every message frame handed to the peer after such a frame must reach the actor; the case carries the table of what "
                 "actor.NewRef answered for the injected strings); back-off object: ~50 Next/Reset/GetAttempt sessions, ~450 Try runs and ~100 two-Try histories per "
                 "run, exact model cases (delays to the nanosecond) plus the monitors c14-backoff-attempts (fn failing every time is called exactly limit+1 times and "
                 "Try returns an error), c14-backoff-try-result (Try returns what fn returned when fn stops the loop), c14-backoff-not-reset (GetAttempt() = 0 after "
                 "every Try; a second Try gets all its attempts; the mailbox of a live system is at 0 when idle), c14-backoff-attempt-numbers, "
                 "c14-backoff-negative-delay; listener retry: monitor c14-no-recovery (listener-busy: the retry stopped / the system never listened after the port "
                 "became free / listens but receives nothing), case accept-backoff; same peer port again: regression monitor c14-accepted-connection-not-read (fin / rst variants: frames written into the re-established connection "
                 "never reach the actor), c14-finding-accept-name-window (KNOWN FINDING C14-accept-name-window: busy-reader variant, the receiving system logged the name "
                 "collision), c14-no-recovery for such a loss without a logged collision; cases accept-collision/fin, /rst, /backlog (history accept / kernel connection "
                 "gone / reader ended in the order observed, against Accept.accept_run); cases backoff-enqueue-time: a Tell that ran through its `limit` retries took at least the sum of the lower interval ends; "
                 "one case = one scenario: the Enqueue calls with "
                 "the environment's answers, against the observed events, per-connection byte counts and receiver observations. non-trivial = at least one "
                 "failed attempt or cut; distinct = distinct scenarios"),
        "modelled_not_verified": [
            _M5,
            "the environment of one Enqueue iteration is one `answers` record (stopped?, connect outcome, closed?, is a short write reported?); theorems quantify over all scripts",
            "C14_subsequence_partial assumes the connections of one sender mailbox do not overlap at the receiver (each connection has its own reader actor: "
            "Link.received concatenates per-connection deliveries in connection order); without it the clause is refuted (C14_overlap_reorder_refuted, known finding)",
            "wall-clock promptness of Tell is measured, not proved; the theorem is structural (every label of an Enqueue, including LSleep, runs on the calling goroutine)",
            "back-off (Remoting/Backoff.v): Factor is 2.0 (the only factor vivid passes; the differential run reads Factor from the live objects); float64 "
            "arithmetic = exact dyadic arithmetic rounded to nearest-even at 53 bits per operation (rn53), exponent range not modelled (math.Pow(2, k) = +Inf for "
            "k >= 1024 and the unbounded 2^k are both capped to MaxDelay), no fused multiply-add (amd64 GOAMD64=v1; checked bit for bit by the differential run on "
            "the machine of the check); rand.Float64() = float64(Int63()) / 2^63 with a redraw at 1.0 (math/rand of the Go toolchain in use; the integer is supplied "
            "by the harness's mirror generator); time.Sleep(d) sleeps at least d (only the lower bound of a measured Tell duration is compared); "
            "C14.v's older nominal figures (backoff_ms: 100 ms * 2^k capped at 3 s) remain in C14_dead_letter_after_exhaustion / C14_tell_nonblocking_refuted",
            "receiving side (Remoting/Accept.v): the table of reader actors of accepted connections as a list of names; that the kernel accepts a successor from the same "
            "peer ip:port as soon as its own connection is gone (AGone) independently of the reader actor's progress (AReaderEnd) is the environment (tcp_ok is TCP's "
            "4-tuple uniqueness); that an accepted connection whose ActorOf failed is never read and never reported to the dialler is the code as it is (onConnection "
            "returns without Reply; the acceptor's Ask times out and Close only arms a read deadline); in the harness case the order of the second accept and the old "
            "reader's end is inferred from the receiving system's log (name collision logged or not)",
            "unroutable frames: whether actor.NewRef accepts an (address, path) pair is an oracle per case (the harness asks the real NewRef for the strings it "
            "injects; RemRun.ref_ok; unlisted pairs are accepted) - utils.NormalizeAddress / NormalizePath themselves are not modelled; in the theorems `routable` "
            "is universally quantified",
            "several peers: one sender machine per remote mailbox with its own attempt counter (LinkPeers.pair_run; mailbox.go newMailbox creates one "
            "ExponentialBackoff per Mailbox); the unit of interleaving between mailboxes is one iteration of backoff.Try's loop; the shared-counter machine "
            "(LinkPeers.shared_run) is a hypothetical variant used only in C14_shared_counter_never_dead_letters / _refuted",
        ],
    },
}

PROPERTIES["C15"] = {
    "components": ["transparency"],
    "coq_files": ["Properties/C15_remote.v", "Properties/C15.v"],
    "rule": ("remote Kill / Watch / Unwatch / Ping / PipeTo rounds between three real systems (12 quick / 120 thorough; poison and non-poison; same-path watchers on "
             "different systems; pass, 1-byte, straddling, random chunking), then alias-address rounds (1 quick / 6 thorough per alias string of the target system: "
             "Tell, Ask, Ping, Watch, Kill through the alias ref; self-send count of the target system must stay 0); name-reuse rounds (3 quick / 24 thorough: kill, "
             "await termination, re-spawn under the same name, repeat every remote operation beside its local control; one Churn.v model case each, run_remoting op 3); "
             "boundary-input rounds (1 pass quick under one seeded chunking mode / 5 passes thorough: pass, straddle, hdr-split, 64k, random): Kill with reasons of 0, 255, "
             "256, 70000 ASCII bytes, 86 CJK runes (258 B), 2+64 four-byte runes (258 B), 256 arbitrary bytes, three variadic reasons joined to 256 B and two seeded lengths "
             "around 255 and 65535 (thorough adds 1, 257, 65535, 65536, 85 CJK runes, 63/64 emoji, 21846 CJK runes, binary 255/65536, more variadic forms and seeded "
             "lengths), each with poison false and true, locally and remotely (40 kills quick / 124 per pass thorough, exactly one OnKilled at the watchers on A and C per "
             "kill); Ask/Reply echo of 0, 1, 255, 256, 65535, 65536, 70000, 1 MiB and a seeded size near 64 KiB (thorough adds 257, 65537, ~1 MiB+, 3 MiB) and Asks answered "
             "by Reply(*vivid.Error) with texts of 0, 255, 256, 70000 bytes (thorough more); PipeTo to the local and the remote target with a remote and a local forwarder "
             "for success and failure results of the same sizes; the local run is the control: a limit that hits local and remote alike is counted, not reported; "
             "otherwise implementation monitors only (Properties/C15.v composes C12's envelope round trip with C11's framing theorem per operation; "
             "Properties/C15_remote.v is the wire-level instance for raw envelopes)"),
    "modelled_not_verified": [
        "Properties/C15.v: the payload codecs are C12's theorems (composed, not assumed); explicit hypotheses in the statements: M9 (user Codec round trip, inside valid_msg), "
        "NewRef idempotence on the refs used (valid_aref: newref a p = MOk (a, p); differentially tested by the frame component each run), M7 (agent paths unique: the table "
        "entry under the agent path is the Ask's future), the two size conditions fits / frame_ok (proved from 64 KiB string bounds for the flat built-in operations)",
        "Properties/C15_remote.v (raw envelopes) assumes the payload codecs of OnKill / OnKilled / Watch: C12's round-trip theorems",
        "the link to the local semantics is one step deep: dispatch / deliver of Actor/Core.v depend on the sender ref only through its path (C15_dispatch_sender_path_only); "
        "a later findMailbox of the stored ref goes through the ref object's mailbox cache for a local ref and through the registry for a rebuilt one: they differ after "
        "name reuse (C15_resolve_identity_witness; the witness state is given, not shown reachable); Core.v has no addresses",
        "what the target system does with a delivered system envelope (kill the subtree, notify watchers) is the actor runtime's business (C06), observed here by monitors only",
        "name reuse: C15_routing_history_independent is about Remoting/Churn.v's sequential scripts (steps separated by round trips in the harness); the model case of a "
        "name-reuse round covers the harness messages (XMsg) of A only: system envelopes (Watch, Ping, Kill) in the same stream are judged by the monitors",
        "boundary rounds assume a healthy link: the harness proxies of the transparency mode reset replaced connections in both directions (a FIN-closed accepted "
        "connection exposed the runs to defect C14-accept-name-collision before its repair)",
        _M5,
    ],
}

META = {
    "C15": {
        "text": ("Location transparency, kernel-checked per operation (Tell, Ask, Reply, Kill, Watch, Unwatch, Ping/Pong, OnKilled notice, PipeTo success and failure, scheduler "
                 "firing): for every wire-valid instance, every chunking and every address string of the target system the caller's ref carries, the target system enqueues "
                 "exactly one envelope, under the target's path, equal to the one a call on that system itself enqueues (system flag, message, sender address/path, receiver "
                 "path); derived by composing C12's envelope/message round trips with C11's framing theorem; one-step link to Actor/Core.v (dispatch depends on the sender "
                 "ref only through its path). Wire part: system messages (Kill, Watch, OnKilled) travel in the same envelopes and frames as user messages; "
                 "kernel-checked: any sequence of envelopes (system flag, message name, payload, four reference strings) is delivered exactly once, in order, "
                 "every field intact, for every chunking, and the receiver rebuilds exactly the written sender/receiver references. Tied to the code by remote "
                 "Kill / Watch rounds on two real systems."),
        "design_ref": "DESIGN.md section 4 C15",
        "note": "Trusted as for C11. The message-level codecs and the actor runtime's reaction are assumed (C12, C06); this part has monitors, no model cases.",
        "technique": "Coq proof (instance of the C11 framing theorem for concrete envelopes) + implementation monitors on two real systems",
    },
    "C11": {
        "text": ("Kernel-checked theorems about a Gallina model of the remoting wire: the receiver as coded (one buffered reader per connection refilled by arbitrary "
                 "reads, 4-byte big-endian length, zero-length close, oversize discard, decode-failure-continues, handshake read with ReadFull) computes a "
                 "function of the concatenated stream only (chunking independence is proved, not assumed); every list of messages whose envelopes are 1..4 MiB "
                 "is delivered exactly once, in order, intact, for every chunking including splits inside the handshake; no envelope is empty (>= 25 bytes) so "
                 "the close marker cannot collide; the receiver rebuilds exactly the sender/receiver refs the encoder wrote; the receiving system resolves "
                 "the receiver at arrival time: after kill + re-spawn under the same name (any history) the messages go to the new incarnation exactly once, in order, "
                 "after a supervision restart to the same incarnation, while nobody is registered to the dead letters (Remoting/Churn.v); first contact "
                 "(Remoting/Central.v, Properties/C11_central.v): for any number of concurrent senders and EVERY interleaving of their GetOrCreate / Enqueue steps from "
                 "an empty mailbox table there is exactly one mailbox (= one connection) per peer address, every sender's messages to an address are on that wire "
                 "exactly once in program order, and - composed with the framing theorem - the remote system delivers them so for every chunking; with a "
                 "non-atomic table whose loser keeps its own mailbox this is refuted (witness). Tied to the code by replaying the "
                 "exact bytes a proxy handed to a real system on the model and comparing everything the system observed."),
        "design_ref": "DESIGN.md section 4 C11",
        "note": ("Trusted: Coq kernel; extraction; the harness proxy and observers; M5; codec round trip and normaliser idempotence as explicit hypotheses. "
                 "Streams above 160 KiB are checked by implementation monitors only."),
        "technique": "Coq proof (induction on the frame list, stream/chunk refinement) + differential replay of real byte streams on the extracted parser",
    },
    "C14": {
        "text": ("Kernel-checked theorems about a Gallina machine of Mailbox.Enqueue / backoff.Try (one step = one iteration: context check, cached or new connection, "
                 "encode, Closed?, write of all bytes or a strict prefix, limit check, sleep) composed with the C11 receiver: for every message list and every "
                 "environment script (cut after any byte of any connection, refusals, handshake failures, any ReconnectLimit) what non-overlapping connections "
                 "deliver is a subsequence of what was sent; every returned Enqueue ends in exactly one Sent event or exactly one dead letter; limit+1 failed attempts "
                 "or an encode failure give exactly one dead letter; undecodable and oversize frames do not stop later frames; after a reported failure the next attempt "
                 "delivers on a new connection at a frame boundary; two mailboxes of one system are independent under every interleaving of their iterations, so the dead "
                 "letter after limit+1 failed attempts holds whatever traffic goes to another peer (with one shared back-off counter it would be lost: proved for that "
                 "variant). Frames that decode but cannot be routed (rejected sender / receiver reference) do not stop later frames either and change nothing "
                 "for the frames around them. The retry policy exactly (Properties/C14_backoff.v, Remoting/Backoff.v = utils.ExponentialBackoff with float64 "
                 "modelled to the bit): Factor 2 makes the capped exponential exact; every delay lies within 75 %..125 % of it for every attempt number and every "
                 "random value; fn failing every time is called exactly limit+1 times; the counter is 0 after every exit of Try, so every Try behaves as on a new "
                 "object (a stale counter provably loses attempts); the sleeps of one Enqueue are the attempts 0..n-1, n <= ReconnectLimit, their sum is within the "
                 "sum of the intervals (<= n * 3.75 s; 13.575 s..22.625 s for the default limit 10 when the peer stays away). Without the non-overlap proviso: "
                 "every interleaving of the connections' deliveries is a permutation of a subsequence of what was sent and keeps each connection's order (no "
                 "corruption, no duplicate; only the order between two connections can break). Refuted with witnesses: Tell is non-blocking (the caller sleeps "
                 "`limit` times), order across overlapping connections, and - receiving side, Remoting/Accept.v, the code since the repair of C14-accept-name-collision - every accepted connection whose predecessor's "
                 "reader actor has reached the end of its stream is read, for every history over any set of peer addresses (C14_accepted_connection_read), while a "
                 "connection registered before that (the kernel forgets a reset connection at once, the reader may still be busy) is never read "
                 "(C14_accepted_before_reader_end_refuted: the residual window)."),
        "design_ref": "DESIGN.md section 4 C14",
        "note": ("Trusted: Coq kernel; extraction; the harness proxy (cuts, refusals, injections) and observers; the mirror of the math/rand source; M5. "
                 "Known findings: c14-tell-blocks, c14-reorder-across-connections, c14-finding-accept-name-window."),
        "technique": "Coq proof (invariant of a small-step sender machine over all scripts, refinement to the frame parser) + scenario replay on two real systems through a fault-injecting proxy",
    },
}
