"""C11 / C14 — TCP remoting: framing, delivery, faults."""

_ARGS_FRAME = {"quick": ["-mode", "frame"], "thorough": ["-mode", "frame"]}
_ARGS_LINK = {"quick": ["-mode", "link"], "thorough": ["-mode", "link"]}

COMPONENTS = {
    "frame": {
        "coq_run_module": "Remoting.RemRun",
        "cmd": "remoting",
        "args": _ARGS_FRAME,
        "timeout": {"quick": 240, "thorough": 2400},
        "what": ("two real vivid systems in one process over loopback through the harness TCP proxy (re-chunks the byte stream: pass, 1-byte, "
                 "seeded random, frame-straddling, coalescing, 64 KiB, header-split; split handshake); the exact bytes handed to the receiving "
                 "system are replayed on Remoting/Frame.v's receiver (deliveries to the actor, decoded frames, decode failures, invalid lengths); "
                 "receiver churn (harness/cmd/remoting/churn.go, own pair of systems): scripts of spawn / kill (termination awaited) / re-spawn under the same "
                 "name / first spawn at a path that already received traffic / supervision restart on the RECEIVING system, interleaved with bursts, replayed on "
                 "Remoting/Churn.v (per path: which incarnation and restart epoch received which message, which messages were dead-lettered)"),
    },
    "link": {
        "coq_run_module": "Remoting.RemRun",
        "cmd": "remoting",
        "args": _ARGS_LINK,
        "timeout": {"quick": 240, "thorough": 2400},
        "what": ("the same two systems under faults arranged by the proxy: connection cut after every byte offset of a 3-frame stream, refused and "
                 "reset connections, peer restart, injected garbage / invalid-length frames, unencodable and oversize messages; every Enqueue's "
                 "observable events (connection-failed retry counts, send-failed, sent, dead letter, dials), the byte count of every connection and "
                 "the receiver's observations are replayed on Remoting/Link.v + Frame.v; two peers (harness/cmd/remoting/twopeers.go): one sender with "
                 "ReconnectLimit 1..2 (1..4 thorough), a peer that refuses connections and a healthy peer that gets a Tell every 12 ms from its own goroutine while "
                 "the Tell to the refusing peer retries; each peer's mailbox is replayed on the sender machine separately"),
    },
}

COMPONENTS["transparency"] = {
    "coq_run_module": "Remoting.RemRun",
    "cmd": "remoting",
    "args": {"quick": ["-mode", "transparency"], "thorough": ["-mode", "transparency"]},
    "timeout": {"quick": 240, "thorough": 1200},
    "monitors_only": True,
    "what": ("three real systems, each behind its own re-chunking proxy: remote Kill (poison and not) with watchers that have THE SAME PATH on A, on C and on B "
             "itself (every watcher exactly one OnKilled naming the target, the target exactly one OnKill naming the remote killer, reason and poison flag); "
             "Unwatch by one same-path watcher must not affect the others; remote Ping/Pong; remote Ask/Reply; PipeTo with a remote and a local forwarder for "
             "success and failure results; a Tell after the kill no longer reaches the actor; finally (harness/cmd/remoting/alias.go) Tell / Ask / Ping / Watch / Kill "
             "through refs that carry an ALIAS address of the target system (its bind address behind the proxy, localhost:PORT for 127.0.0.1:PORT): same effect as "
             "through the advertised address, the OnKilled names the advertised address, and the target system sends 0 frames to its own addresses "
             "(monitors c15-alias-not-delivered, c15-alias-self-send); before that, name reuse (harness/cmd/remoting/respawn.go): the actor at /rspN on B is "
             "addressed remotely (Tell, Ask, Ping, PipeTo with a forwarder on C, Watch from A and C, Kill from A), terminates, a new actor is spawned under the "
             "same name (2 incarnations quick / 3 thorough; the forwarder on C is re-created too) and every operation is repeated next to the same operation "
             "through B's local ref (monitors c15-remote-after-respawn:<tell|ask|ping|pipe-target|pipe-forwarder|watch|kill>, c15-local-control); one model "
             "case per round: the A->B byte stream phase by phase on Remoting/Churn.v (which incarnation received A's messages, which were dead-lettered on B)"),
}

_M5 = ("M5: TCP is a reliable FIFO byte stream that may split/coalesce arbitrarily and may be cut after any byte; conn.Write delivers all its bytes or a "
       "strict prefix after which nothing more arrives on that connection, and only the second case can return an error (Link.write)")

PROPERTIES = {
    "C11": {
        "components": ["frame"],
        "rule": ("rounds of concurrent sender actors (1..8 per direction, bursts up to 2000, payloads 0..1 MiB quick / just under 4 MiB thorough, every k-th "
                 "message an Ask answered by Reply) in both directions, each round on a fresh connection under one chunking mode; one case = one "
                 "connection's byte stream (as chunked by the proxy, up to 160 KiB) with everything the receiving system observed; larger streams are "
                 "judged by the monitors only (per-sender exactly-once/order/checksum at the receiver AND a wire check: the sender's recorded byte stream must "
                 "be a sequence of whole frames, every sent message once, per-sender order). Includes rounds of 6-8 concurrent senders to two target actors with "
                 "payloads mixed from 0 B .. 1 MiB (60/70/200 KiB: frames above 64 KiB) through the proxy and over a direct link. "
                 "Receiver churn (8 scripts quick / 60 thorough, one chunking mode each, child actors of a supervising host actor and a top-level actor): every step is "
                 "separated from the next by a round trip (all messages of a burst received or dead-lettered, the last message to a live actor is an Ask; kill waits for "
                 "the parent's OnKilled and FindActor failing; spawn waits for OnLaunch); one case = one script with the bytes of every traffic phase, compared per path "
                 "on (incarnation, epoch, message) deliveries and dead letters; monitor c11-live-actor-not-delivered: a message sent over the healthy link to a path where "
                 "an actor is registered must reach THAT incarnation exactly once, in order, intact. "
                 "non-trivial = more than one frame and more than one chunk; distinct = distinct byte streams/chunkings"),
        "modelled_not_verified": [
            _M5,
            "codec round trip dec (enc m) = Some m is a hypothesis of C11_exactly_once_in_order (Section hypothesis codec_roundtrip; the envelope layout "
            "itself is proved in C11_envelope_roundtrip, the message payload is C12's theorem / the user codec's contract M9)",
            "utils.NormalizeAddress / NormalizePath idempotence is a hypothesis of C11_sender_ref (norm_addr_idem, norm_path_idem), checked by differential "
            "testing on the implementation each run",
            "bufio.Reader + io.ReadFull = an unbounded buffer refilled by arbitrary reads (Frame.read_full)",
            "receiver churn: the steps of a script are sequential (Churn.run_churn; the harness separates them by round trips); a kill / spawn racing with traffic "
            "in flight is not modelled; the registry is actorContexts restricted to actors (ActorOf = LoadOrStore, final kill = Delete, restart keeps the entry)",
        ],
    },
    "C14": {
        "components": ["link"],
        "rule": ("fault scenarios on two real systems: cut after every byte offset of a 3-frame stream (ReconnectLimit 0 exhaustively; limit 2 sampled in the quick "
                 "tier, exhaustively in the thorough tier), cut inside the handshake, refused dials, reset-after-accept, peer restart, injected undecodable / "
                 "invalid-length frames, unencodable and > 4 MiB messages, late delivery on an old connection, two peers (one refusing, one healthy with steady "
                 "traffic; monitors c14-no-dead-letter-after-limit with a real-time bound of max(15 s, 10 x nominal back-off sum), c14-retry-count, "
                 "c14-healthy-peer-disturbed); one case = one scenario: the Enqueue calls with "
                 "the environment's answers, against the observed events, per-connection byte counts and receiver observations. non-trivial = at least one "
                 "failed attempt or cut; distinct = distinct scenarios"),
        "modelled_not_verified": [
            _M5,
            "the environment of one Enqueue iteration is one `answers` record (stopped?, connect outcome, closed?, is a short write reported?); theorems quantify over all scripts",
            "C14_subsequence_partial assumes the connections of one sender mailbox do not overlap at the receiver (each connection has its own reader actor: "
            "Link.received concatenates per-connection deliveries in connection order); without it the clause is refuted (C14_overlap_reorder_refuted, known finding)",
            "wall-clock promptness of Tell is measured, not proved; the theorem is structural (every label of an Enqueue, including LSleep, runs on the calling goroutine)",
            "back-off durations are the nominal 100 ms * 2^k capped at 3 s (jitter +-25 % not modelled)",
            "several peers: one sender machine per remote mailbox with its own attempt counter (LinkPeers.pair_run; mailbox.go newMailbox creates one "
            "ExponentialBackoff per Mailbox); the unit of interleaving between mailboxes is one iteration of backoff.Try's loop; the shared-counter machine "
            "(LinkPeers.shared_run) is a hypothetical variant used only in C14_shared_counter_never_dead_letters / _refuted",
        ],
    },
}

PROPERTIES["C15"] = {
    "components": ["transparency"],
    "coq_files": ["Properties/C15_remote.v", "Properties/C15.v"],
    "rule": ("remote Kill / Watch / Unwatch / Ping / PipeTo rounds between three real systems (12 quick / 120 thorough; poison and non-poison; same-path watchers on "
             "different systems; pass, 1-byte, straddling, random chunking), then alias-address rounds (1 quick / 6 thorough per alias string of the target system: "
             "Tell, Ask, Ping, Watch, Kill through the alias ref; self-send count of the target system must stay 0); name-reuse rounds (3 quick / 24 thorough: kill, "
             "await termination, re-spawn under the same name, repeat every remote operation beside its local control; one Churn.v model case each, run_remoting op 3); "
             "otherwise implementation monitors only (Properties/C15.v composes C12's envelope round trip with C11's framing theorem per operation; "
             "Properties/C15_remote.v is the wire-level instance for raw envelopes)"),
    "modelled_not_verified": [
        "Properties/C15.v: the payload codecs are C12's theorems (composed, not assumed); explicit hypotheses in the statements: M9 (user Codec round trip, inside valid_msg), "
        "NewRef idempotence on the refs used (valid_aref: newref a p = MOk (a, p); differentially tested by the frame component each run), M7 (agent paths unique: the table "
        "entry under the agent path is the Ask's future), the two size conditions fits / frame_ok (proved from 64 KiB string bounds for the flat built-in operations)",
        "Properties/C15_remote.v (raw envelopes) assumes the payload codecs of OnKill / OnKilled / Watch: C12's round-trip theorems",
        "the link to the local semantics is one step deep: dispatch / deliver of Actor/Core.v depend on the sender ref only through its path (C15_dispatch_sender_path_only); "
        "a later findMailbox of the stored ref goes through the ref object's mailbox cache for a local ref and through the registry for a rebuilt one: they differ after "
        "name reuse (C15_resolve_identity_witness; the witness state is given, not shown reachable); Core.v has no addresses",
        "what the target system does with a delivered system envelope (kill the subtree, notify watchers) is the actor runtime's business (C06), observed here by monitors only",
        "name reuse: C15_routing_history_independent is about Remoting/Churn.v's sequential scripts (steps separated by round trips in the harness); the model case of a "
        "name-reuse round covers the harness messages (XMsg) of A only: system envelopes (Watch, Ping, Kill) in the same stream are judged by the monitors",
        _M5,
    ],
}

META = {
    "C15": {
        "text": ("Location transparency, kernel-checked per operation (Tell, Ask, Reply, Kill, Watch, Unwatch, Ping/Pong, OnKilled notice, PipeTo success and failure, scheduler "
                 "firing): for every wire-valid instance, every chunking and every address string of the target system the caller's ref carries, the target system enqueues "
                 "exactly one envelope, under the target's path, equal to the one a call on that system itself enqueues (system flag, message, sender address/path, receiver "
                 "path); derived by composing C12's envelope/message round trips with C11's framing theorem; one-step link to Actor/Core.v (dispatch depends on the sender "
                 "ref only through its path). Wire part: system messages (Kill, Watch, OnKilled) travel in the same envelopes and frames as user messages; "
                 "kernel-checked: any sequence of envelopes (system flag, message name, payload, four reference strings) is delivered exactly once, in order, "
                 "every field intact, for every chunking, and the receiver rebuilds exactly the written sender/receiver references. Tied to the code by remote "
                 "Kill / Watch rounds on two real systems."),
        "design_ref": "DESIGN.md section 4 C15",
        "note": "Trusted as for C11. The message-level codecs and the actor runtime's reaction are assumed (C12, C06); this part has monitors, no model cases.",
        "technique": "Coq proof (instance of the C11 framing theorem for concrete envelopes) + implementation monitors on two real systems",
    },
    "C11": {
        "text": ("Kernel-checked theorems about a Gallina model of the remoting wire: the receiver as coded (one buffered reader per connection refilled by arbitrary "
                 "reads, 4-byte big-endian length, zero-length close, oversize discard, decode-failure-continues, handshake read with ReadFull) computes a "
                 "function of the concatenated stream only (chunking independence is proved, not assumed); every list of messages whose envelopes are 1..4 MiB "
                 "is delivered exactly once, in order, intact, for every chunking including splits inside the handshake; no envelope is empty (>= 25 bytes) so "
                 "the close marker cannot collide; the receiver rebuilds exactly the sender/receiver refs the encoder wrote; the receiving system resolves "
                 "the receiver at arrival time: after kill + re-spawn under the same name (any history) the messages go to the new incarnation exactly once, in order, "
                 "after a supervision restart to the same incarnation, while nobody is registered to the dead letters (Remoting/Churn.v). Tied to the code by replaying the "
                 "exact bytes a proxy handed to a real system on the model and comparing everything the system observed."),
        "design_ref": "DESIGN.md section 4 C11",
        "note": ("Trusted: Coq kernel; extraction; the harness proxy and observers; M5; codec round trip and normaliser idempotence as explicit hypotheses. "
                 "Streams above 160 KiB are checked by implementation monitors only."),
        "technique": "Coq proof (induction on the frame list, stream/chunk refinement) + differential replay of real byte streams on the extracted parser",
    },
    "C14": {
        "text": ("Kernel-checked theorems about a Gallina machine of Mailbox.Enqueue / backoff.Try (one step = one iteration: context check, cached or new connection, "
                 "encode, Closed?, write of all bytes or a strict prefix, limit check, sleep) composed with the C11 receiver: for every message list and every "
                 "environment script (cut after any byte of any connection, refusals, handshake failures, any ReconnectLimit) what non-overlapping connections "
                 "deliver is a subsequence of what was sent; every returned Enqueue ends in exactly one Sent event or exactly one dead letter; limit+1 failed attempts "
                 "or an encode failure give exactly one dead letter; undecodable and oversize frames do not stop later frames; after a reported failure the next attempt "
                 "delivers on a new connection at a frame boundary; two mailboxes of one system are independent under every interleaving of their iterations, so the dead "
                 "letter after limit+1 failed attempts holds whatever traffic goes to another peer (with one shared back-off counter it would be lost: proved for that "
                 "variant). Refuted with witnesses: Tell is non-blocking (the caller sleeps `limit` times), order across "
                 "overlapping connections."),
        "design_ref": "DESIGN.md section 4 C14",
        "note": ("Trusted: Coq kernel; extraction; the harness proxy (cuts, refusals, injections) and observers; M5. Known findings: c14-tell-blocks, "
                 "c14-reorder-across-connections."),
        "technique": "Coq proof (invariant of a small-step sender machine over all scripts, refinement to the frame parser) + scenario replay on two real systems through a fault-injecting proxy",
    },
}
