"""C02 — per-sender FIFO, system-before-user priority, stash order: the ring-queue and the stash parts
(the mailbox-ordering part is added to the property separately)."""

COMPONENTS = {
    "ring": {
        "coq_run_module": "Queue.RingRun",
        "accessors": {"internal/queues/xv_ring_verif.go": "acc/queues/xv_ring_verif.go"},
        "what": "queues.RingQueue: whole New/Push/Pop/PopMany/Length/Empty sessions (+ dumps of head/tail/mod/len/buffer through an accessor) vs Queue/Ring.v",
    },
    "stash": {
        "coq_run_module": "Queue.StashRun",
        "what": "actor.Context Stash/Unstash/StashCount driven through a real ActorSystem (public API only, scripted actor behind a gate) vs Queue/Stash.v",
    },
}

PROPERTIES = {
    "C02": {
        "components": ["ring", "stash"],
        "rule": ("ring: one case = one session New(size); calls, observed = every call's result, compared with the model; payloads are a counter. "
                 "exhaustive: all 6^5 (thorough 6^7) call sequences over {Push, Pop, PopMany(0), PopMany(2), PopMany(2^40), Length} for sizes 1,2,3 (crosses the "
                 "growth boundaries 1->2->4->8), each followed by a drain; random: seeded sessions of 1..5000 calls over sizes {1,2,3,4,8,256} with the push "
                 "probability switched between 10% and 90% inside a session (fill over several growth boundaries, drain, wrap around), PopMany counts from "
                 "{0, pending, pending+1..3, 2^62, random}, representation dumps; guards: New(0), New(<0), negative PopMany count as the last call; "
                 "8 concurrent-sender runs (1,2,4,8 senders x 1 consumer) are monitor-only. non-trivial = at least one payload pushed and handed out. "
                 "stash: one case = one script (list of call lists over Stash/Unstash()/Unstash(n)) run by a real actor on messages 0..M-1 queued behind a gate; "
                 "observed = handling order with StashCount() after each message, then everything left un-stashed; fixed scripts, all 6^3 (thorough 6^4) small scripts, "
                 "seeded random scripts (M up to 311 so that the real mailbox ring grows). non-trivial = the script both stashes and un-stashes. "
                 "distinct = distinct input terms"),
        "modelled_not_verified": [
            "M4: RingQueue is used under its mutex (Push/Pop/PopMany) - the model is sequential; linearizability of concurrent callers is assumed, only sampled by the concurrent-sender monitor",
            "M10: int64 cursors do not wrap (mod*2 overflows only for a buffer of 2^62 slots); Go slices/interface{} slots = list (option A), nil slot = None; a pushed nil item is not distinguished from an empty slot",
            "Length()/Empty() read len atomically without the mutex: modelled as part of the sequential state",
            "stash correspondence replays the actor's own mailbox as a plain FIFO list and user messages only; that the real mailbox is FIFO per sender is the mailbox part of C02",
            "the stash is only touched by the actor's own goroutine (one handler at a time: C01)",
        ],
    },
}

META = {
    "C02": {
        "text": ("22 kernel-checked theorems (ring + stash parts). Ring: a representation relation ring_repr r l (cursors in range, fewer than mod elements, len, tail = head+len mod m, "
                 "cyclic walk from head reads l then only nil slots) is established by New(n) for every n >= 1 and preserved by every call; every call on a ring representing l "
                 "returns exactly what the list FIFO returns on l (so for every call sequence and every initial size >= 1 the session results equal those of the list FIFO, across "
                 "every growth boundary); what Pop/PopMany hand out is a prefix of what was pushed, in order, and with non-negative counts nothing is lost and no call panics; "
                 "PopMany clause by clause (count > length clamped, 0, empty queue, negative count = makeslice panic with len corrupted and the mutex held); New(0) panics on the first Push, "
                 "New(<0) panics. Stash: Stash appends, Unstash() takes the oldest, Unstash(n) the oldest min(max(n,0),len); for every history the re-enqueued batches in call order followed by "
                 "the remaining stash equal the stashed envelopes in order, and with position tags no entry is re-enqueued twice. Tied to the Go code on every run by whole-session differential "
                 "runs (exhaustive small sessions, seeded long ones, representation dumps) on the real RingQueue and by scripted actors on a real ActorSystem."),
        "design_ref": "DESIGN.md §4 C02",
        "note": ("Trusted: Coq kernel + vm_compute; ExtrOcamlBasic extraction (cross-checked by vm_compute on a sample each run); the harness and the add-only accessor "
                 "internal/queues/xv_ring_verif.go; sequential model of a mutex-protected queue (M4). Observations about the unchanged code, none of them a violation of C02 as stated: "
                 "PopMany(negative) on a non-empty queue panics after adding |count| to len and leaves the mutex locked (no caller in the repository passes a negative count; PopMany has no "
                 "non-test caller); Unstash(n <= 0) re-enqueues nothing although the interface comment says it restores everything; New(0) panics on the first Push (the only caller passes 256)."),
        "technique": "Coq proof (representation invariant + refinement to a list FIFO by induction over call sequences) over a hand-written model + differential correspondence check against the Go code",
    },
}
