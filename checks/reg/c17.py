"""C17 — cluster view merge."""

COMPONENTS = {
    "view": {
        "coq_run_module": "Cluster.ViewRun",
        "accessors": {
            "internal/cluster/xv_acc_verif.go": "acc/cluster/xv_acc_verif.go",
            "internal/cluster/xv_view_verif.go": "acc/cluster/xv_view_verif.go",
            "internal/cluster/xv_viewwire_verif.go": "acc/cluster/xv_viewwire_verif.go",
        },
        "env": {"XV_C17_FINDINGS": "1"},   # the recorded finding (cap truncation lowers a member's vector entry) is raised as a monitor (matched by known_findings.json)
        "what": ("cluster.ClusterView / NodeState: IsNewerThan, AddMember, RemoveMember, IncrementVersion, in-place status change, "
                 "recomputeCounts, Snapshot, MergeFromWithOptions (3 strategies, skew off/far/near; `changed` compares the merged vector with the "
                 "vector before the prune) vs Cluster/View.v; the COMPLETE values (all 13 NodeState fields, ViewID, nil Members map, nil entries) "
                 "through Clone / AddMember / MergeFromWithOptions / Snapshot vs Cluster/ViewFull.v run on the pointer-level model Cluster/ViewHeap.v, "
                 "including who shares which Go object afterwards"),
    },
}

PROPERTIES = {
    "C17": {
        "components": ["view"],
        "coq_files": ["Properties/C17.v", "Properties/C17_ext.v"],
        "rule": ("every operation runs on the real ClusterView; the view is dumped before and after (members id -> id, address, generation, "
                 "timestamp, seqno, status, logical clock, last-seen; epoch; view timestamp; protocol version; counts; version vector; changed) "
                 "and compared with the model. exhaustive: 100 views over ids {a,b} (per id absent|(1,1,Up)|(1,1,Suspect)|(1,2,Up)|(2,1,Up), "
                 "4 vector/epoch variants) built through newNodeState/AddMember/IncrementVersion/status change - every ordered pair x 3 "
                 "strategies (skew off/far/near rotating in quick, all in thorough), both directions compared; triples of that domain in all "
                 "6 orders x 2 tree shapes with per-merge random options; IsNewerThan on all 24x24 states over id{a,b} x gen{1,2} x lc{0,1,2} x "
                 "ts{1,2}. random: 2-4 nodes each evolving its own view by join / accept-join / gossip-merge / suspect / restart-with-generation-"
                 "bump / rare removal, then pairs, idempotence and triples. ill-formed stream: logical clock 0, key != id, generation <= 0, "
                 "extreme timestamps (int64 wrap in the skew test), non-member vector keys, MaxVersionVectorEntries 1..3, strategy 3/-1, "
                 "negative skew. non-trivial = both views have members (merge) / the operation takes its non-trivial branch; distinct = distinct input terms. "
                 "monitors on every merge of every stream (well-formed or not): operand unmodified, no aliasing, no member removed/fabricated/missing, "
                 "no regression / newest incarnation (well-formed views), epoch not lowered, no member's vector entry lowered (member count within the cap), "
                 "changed-unsound = members or any vector counter differ although changed=false - unguarded, it covers non-member vector keys and cap "
                 "truncation (regression of 53b1085: the replayed witnesses RemoveMember(b);IncrementVersion(b);merge and MaxVersionVectorEntries=1 "
                 "fire it on the code before that commit). "
                 "complete values (kinds full-*): operands are rebuilt as fully unshared copies (every state and every non-nil map, empty ones too, a "
                 "new object), the operation runs, and the case is (complete dump of the operands incl. ClusterName, Unreachable, Metadata, Labels, "
                 "Checksum, ViewID, nil map, nil entries) -> (complete dump of the result, changed, and per member the triple same-object / "
                 "same-Metadata-map / same-Labels-map against its source, by Go pointer identity); the model loads the operands into an empty heap and "
                 "runs h_merge / h_add / h_snapshot / h_clone. exhaustive: every shape of the two maps (nil | empty | 1 entry | 3 entries)^2 through "
                 "Clone, AddMember, merge into an empty view, Snapshot; random: views over ids {a,b,c}, incarnations (1..2,1..2), 5 statuses, all map "
                 "shapes, every third round with nil entries and (1/10) a nil Members map; merge both ways and with itself, 3 strategies x 3 skew "
                 "settings. monitors on these: operand-modified (complete dump), member-fabricated = a stored state that is field for field neither "
                 "the old one nor the argument's / a new nil entry / a changed ViewID / Clone not a field-for-field copy, member-removed, "
                 "member-missing, aliasing = a shared *NodeState or a shared NON-EMPTY map; a shared EMPTY map is no monitor: it is the report-only "
                 "observation clone-shares-empty-map (it refutes the mechanism 'stored states are clones' for empty maps, not the property; the Coq witness "
                 "is replayed on every run and whether it still reproduces is recorded in the report's info.observations)"),
        "modelled_not_verified": [
            "Go map[string]*NodeState = finite map (core model: without nil entries; complete model ViewFull.v: option-valued, nil entries and the nil map included); map iteration order is irrelevant to every modelled result (each key is visited once and only touches its own key): the pointer-level loop decides every key on the heap the loop started with and folds over the entries in map_to_list order",
            "pointer level (ViewHeap.v): a heap of NodeState objects and map[string]string objects with an allocation counter; the Members map object and the VersionVector map are owned by one view and modelled by value (VersionVector aliasing is C16's); base fields (epoch, counts, vector, ...) of the pointer-level operations are computed by the value-level operation on what the views denote - the pointer-level content is which object each entry points to",
            "garbage collection, goroutines: the heap only grows and the operations are sequential (ClusterView is confined to its actor); 'fresh' = at or above the allocation counter",
            "the complete-value harness rebuilds its operands as fully unshared copies before each operation, as the model's loader does; views that already share empty maps before an operation (possible in the running system, see the observation clone-shares-empty-map) are outside the differential cases but inside the theorems (vsep is a hypothesis)",
            "wire cases: the byte-level model is C12's Codec/ClusterMsgs.v (enc_view / dec_view); C17 adds the field-by-field conversions to_wire / of_wire and compares readClusterView(writeClusterView(o)) with of_wire(dec_view(enc_view(to_wire o))) on complete dumps",
            "Generation (int) and LogicalClock (uint64) are unbounded in the model: wrap-around after 2^63 / 2^64 restarts is outside it; the int64 arithmetic of the clock-skew test IS modelled with wrap-around",
            "time.Now() in MergeFromWithOptions is the parameter `now`; the harness passes a nominal clock and places every view timestamp so that the skew branch is the same for any real clock within 10 years of it (checked at start-up)",
            "the restart bump of tryJoinSeeds is inline in an actor handler: the harness transcribes its 9 lines around the real AddMember (the real handler is driven by C18's harness)",
            "the 'reachable' views of the theorems (Inductive reach) exclude RemoveMember, as the property's quantifier does; WF is proved invariant under RemoveMember too, VVin only while a member remains; the `changed` theorems need no reachability (all views)",
            "beforeVV := v.VersionVector copies the struct, not the map: the model's 'vector before the prune' is a value; that PruneWithMax/Merge build new maps and never write the old one is what the differential check observes (a stale alias would show up as a wrong changed flag)",
            "view_merge_before_fix (the changed flag as computed before commit 53b1085) is kept in the model only for the regression Example; it is not compared with any code",
        ],
    },
}

META = {
    "C17": {
        "text": ("68 kernel-checked theorems (Properties/C17.v 24, Properties/C17_ext.v 44: part 2 configurations 20, part 3 complete values and pointers 21, part 4 wire 3) about the Gallina models of ClusterView/NodeState. For all well-formed views (keys = state ids, generation >= 1, "
                 "logical clock >= 1 - proved invariant of newNodeState, AddMember, RemoveMember, IncrementVersion, status changes, the restart bump, Snapshot "
                 "and merges): the membership (id -> generation, logical clock) of a merge is the pointwise lexicographic maximum, hence commutative, associative, "
                 "idempotent, and ANY merge expression (any order, tree shape, strategy, skew, clock per merge) over the same views yields the same membership = "
                 "union of members each at the newest incarnation any view has; a merge never removes a member, keeps the old state or adopts one that "
                 "IsNewerThan it, never regresses an incarnation, never lowers epoch / view timestamp / protocol version. `changed` is sound AND exact for every "
                 "pair of views without any side condition (C17_changed_sound, C17_changed_exact: changed iff members, vector as a function id -> counter, epoch, "
                 "view timestamp or protocol version differ) - since commit 53b1085 the merged vector is compared with the vector before the prune; the two "
                 "witnesses on which the earlier code returned changed=false are kept as a regression Example against the earlier function and replayed on the "
                 "real code on every run. Version vector monotonicity is NOT unconditional: no member's entry is lowered under the explicit guard 'member count "
                 "within MaxVersionVectorEntries' (C17_vv_entry_monotone_partial; with 'every vector key a member' no entry at all, and the vector is the "
                 "order-independent pointwise maximum); the guard is shown necessary by a kernel-checked reachable witness (C17_vv_entry_monotone_refuted: "
                 "MaxVersionVectorEntries=1 with two members), replayed on the real code on every run and reported as known finding C17-vv-cap-truncation. A vector "
                 "key that is no member is dropped by the prune; that lowers no member's entry and is reported by changed. Also refuted with reachable witnesses: "
                 "commutativity on full member states (same incarnation, different Status), IsNewerThan transitivity without well-formedness (3-cycle with a "
                 "logical clock of 0), no-regression without well-formedness. "
                 "CONFIGURATIONS (C17_ext.v part 2): for every strategy / skew / clock the epoch and view timestamp of a merge are exactly 'max if adopts else "
                 "unchanged' with adopts = not skipped by the skew test and not (vectors concurrent and PreferLocal) (C17_epoch_exact, "
                 "C17_adopts_per_strategy); PreferRemote and every out-of-range strategy value ARE TakeMax, result and flag (C17_strategy_collapse - it does "
                 "not force-adopt a lower epoch, which keeps 'never lowers the epoch' true); PreferLocal is TakeMax unless the vectors are concurrent; no "
                 "configuration influences the complete member states, the vector, the counts, the protocol version (C17_config_independent), and "
                 "`changed` depends on it only through epoch/timestamp. Order (in)sensitivity of the epoch per configuration: for every configuration it lies "
                 "between the epoch of the receiving view and the maximum and is some view's epoch; for TakeMax-like strategies without skew over views that have "
                 "members it IS the maximum for any order and tree shape (C17_epoch_any_order_takemax_noskew); refuted with well-formed witnesses for "
                 "PreferLocal, for the skew test, and for a member-less view. The skew test is 0 < skew < |now - ts| absent int64 overflow "
                 "(C17_skew_test_exact) and wraps otherwise (witness). IsNewerThan on well-formed states of one node is a strict weak order: trichotomy "
                 "with 'same incarnation' as indifference, negative transitivity; across ids it cycles even on well-formed states (witness). After a merge "
                 "healthy = |Up members|, healthy+unhealthy = |members|, quorum = healthy/2+1 is a strict majority of the healthy (C17_counts_after_merge). "
                 "COMPLETE VALUES (C17_ext.v part 3, ViewFull.v): all 13 NodeState fields, ViewID, nil Members map, nil entries; erase (non-nil entries, core "
                 "fields) commutes with merge (argument without nil entries), AddMember, RemoveMember, Snapshot, recomputeCounts, so every theorem above "
                 "speaks about the complete ClusterView; a merge moves complete states only (each stored state is field for field the old one or the "
                 "argument's), keeps every entry, creates no nil entry, keeps ViewID; order-insensitivity and no-regression restated for complete views. "
                 "POINTERS (ViewHeap.v): Clone / MergeFromWithOptions / AddMember / Snapshot on a heap of NodeState and map objects compute the "
                 "value-level operations (C17_ptr_*_refines), only allocate (hence never modify the argument view, the caller's state or any other view - "
                 "C17_ptr_merge_frame), store fresh state objects, and after them the views share nothing but EMPTY maps "
                 "(C17_stored_states_are_clones_partial, C17_snapshot_is_deep_copy_partial, C17_add_member_stores_clone_partial); with no empty non-nil map "
                 "in the argument the views are independent under later writes (C17_merge_independent_partial). The exception is real: newNodeState makes "
                 "both maps empty and non-nil, Clone copies only the header of an empty map, so the stored clone shares them with its source "
                 "(C17_clone_shares_empty_map_refuted, kernel-checked witness, replayed on the real code on every run). This refutes the MECHANISM "
                 "'stored states are clones' for empty maps, NOT the property: C17's statement speaks of membership, incarnations, epoch, vector "
                 "entries and `changed`, and no operation in its quantifier writes a state's maps after the state entered a view; it is a report-only "
                 "observation (info.observations.clone-shares-empty-map in the evidence), no monitor, no known finding. "
                 "WIRE (C17_ext.v part 4, ViewWire.v on C12's Codec/ClusterMsgs.v): under wire_ok (lengths < 2^32, Generation/Status/counts/"
                 "MaxVersionVectorEntries within int32, non-nil Members without nil entries, no empty non-nil map) readClusterView(writeClusterView(o)) "
                 "is o, so merging what came off the wire is merging the sender's view (C17_merge_commutes_with_wire)."),
        "design_ref": "DESIGN.md §4 C17",
        "note": ("Trusted: Coq kernel + vm_compute; ExtrOcamlBasic extraction (cross-checked by vm_compute on a sample each run); the harness; Go maps as finite "
                 "maps; the heap model of Go objects (locations, allocation counter, no GC). Clone/aliasing and operand immutability are now proved on the pointer-level model AND decided on the implementation (pointer identity of states and maps compared with the model's prediction on every complete-value case). The clause 'never lowers a member's version-vector entry' "
                 "holds only under the stated guard; the guard violation is reachable by configuration (MaxVersionVectorEntries < members) and is a recorded, "
                 "unrepaired finding. The clause 'changed is sound' holds unguarded since commit 53b1085. The mechanism 'stored states are clones' holds except for empty non-nil maps: a report-only observation, not a violation of the property (it cannot affect membership, incarnations, epoch or vectors; only user code writing a state's maps after the state entered a view could notice)."),
        "technique": "Coq proof (finite-map extensionality, induction over merge expressions and reachability, simulation between the complete and the core model, heap-extension invariants for the pointer-level model) over a hand-written model + differential correspondence check against the Go code + implementation-side monitors",
    },
}
