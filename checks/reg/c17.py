"""C17 — cluster view merge."""

COMPONENTS = {
    "view": {
        "coq_run_module": "Cluster.ViewRun",
        "accessors": {
            "internal/cluster/xv_acc_verif.go": "acc/cluster/xv_acc_verif.go",
            "internal/cluster/xv_view_verif.go": "acc/cluster/xv_view_verif.go",
        },
        "env": {"XV_C17_FINDINGS": "1"},   # the recorded finding (cap truncation lowers a member's vector entry) is raised as a monitor (matched by known_findings.json)
        "what": ("cluster.ClusterView / NodeState: IsNewerThan, AddMember, RemoveMember, IncrementVersion, in-place status change, "
                 "recomputeCounts, Snapshot, MergeFromWithOptions (3 strategies, skew off/far/near; `changed` compares the merged vector with the "
                 "vector before the prune) vs Cluster/View.v"),
    },
}

PROPERTIES = {
    "C17": {
        "components": ["view"],
        "rule": ("every operation runs on the real ClusterView; the view is dumped before and after (members id -> id, address, generation, "
                 "timestamp, seqno, status, logical clock, last-seen; epoch; view timestamp; protocol version; counts; version vector; changed) "
                 "and compared with the model. exhaustive: 100 views over ids {a,b} (per id absent|(1,1,Up)|(1,1,Suspect)|(1,2,Up)|(2,1,Up), "
                 "4 vector/epoch variants) built through newNodeState/AddMember/IncrementVersion/status change - every ordered pair x 3 "
                 "strategies (skew off/far/near rotating in quick, all in thorough), both directions compared; triples of that domain in all "
                 "6 orders x 2 tree shapes with per-merge random options; IsNewerThan on all 24x24 states over id{a,b} x gen{1,2} x lc{0,1,2} x "
                 "ts{1,2}. random: 2-4 nodes each evolving its own view by join / accept-join / gossip-merge / suspect / restart-with-generation-"
                 "bump / rare removal, then pairs, idempotence and triples. ill-formed stream: logical clock 0, key != id, generation <= 0, "
                 "extreme timestamps (int64 wrap in the skew test), non-member vector keys, MaxVersionVectorEntries 1..3, strategy 3/-1, "
                 "negative skew. non-trivial = both views have members (merge) / the operation takes its non-trivial branch; distinct = distinct input terms. "
                 "monitors on every merge of every stream (well-formed or not): operand unmodified, no aliasing, no member removed/fabricated/missing, "
                 "no regression / newest incarnation (well-formed views), epoch not lowered, no member's vector entry lowered (member count within the cap), "
                 "changed-unsound = members or any vector counter differ although changed=false - unguarded, it covers non-member vector keys and cap "
                 "truncation (regression of 53b1085: the replayed witnesses RemoveMember(b);IncrementVersion(b);merge and MaxVersionVectorEntries=1 "
                 "fire it on the code before that commit)"),
        "modelled_not_verified": [
            "Go map[string]*NodeState = finite map without nil entries; map iteration order is irrelevant to every modelled result (each key is visited once and only touches its own key)",
            "Clone / Snapshot are the identity in the functional model: 'stored states are clones' and 'the argument view is never modified' are decided on the implementation only (pointer and Labels-map identity, mutation of snapshots, operand dumps around every call)",
            "ClusterName, Unreachable, Metadata, Labels, Checksum, ViewID are payload not read by any modelled function and are not modelled",
            "Generation (int) and LogicalClock (uint64) are unbounded in the model: wrap-around after 2^63 / 2^64 restarts is outside it; the int64 arithmetic of the clock-skew test IS modelled with wrap-around",
            "time.Now() in MergeFromWithOptions is the parameter `now`; the harness passes a nominal clock and places every view timestamp so that the skew branch is the same for any real clock within 10 years of it (checked at start-up)",
            "the restart bump of tryJoinSeeds is inline in an actor handler: the harness transcribes its 9 lines around the real AddMember (the real handler is driven by C18's harness)",
            "the 'reachable' views of the theorems (Inductive reach) exclude RemoveMember, as the property's quantifier does; WF is proved invariant under RemoveMember too, VVin only while a member remains; the `changed` theorems need no reachability (all views)",
            "beforeVV := v.VersionVector copies the struct, not the map: the model's 'vector before the prune' is a value; that PruneWithMax/Merge build new maps and never write the old one is what the differential check observes (a stale alias would show up as a wrong changed flag)",
            "view_merge_before_fix (the changed flag as computed before commit 53b1085) is kept in the model only for the regression Example; it is not compared with any code",
        ],
    },
}

META = {
    "C17": {
        "text": ("24 kernel-checked theorems about the Gallina model of ClusterView/NodeState. For all well-formed views (keys = state ids, generation >= 1, "
                 "logical clock >= 1 - proved invariant of newNodeState, AddMember, RemoveMember, IncrementVersion, status changes, the restart bump, Snapshot "
                 "and merges): the membership (id -> generation, logical clock) of a merge is the pointwise lexicographic maximum, hence commutative, associative, "
                 "idempotent, and ANY merge expression (any order, tree shape, strategy, skew, clock per merge) over the same views yields the same membership = "
                 "union of members each at the newest incarnation any view has; a merge never removes a member, keeps the old state or adopts one that "
                 "IsNewerThan it, never regresses an incarnation, never lowers epoch / view timestamp / protocol version. `changed` is sound AND exact for every "
                 "pair of views without any side condition (C17_changed_sound, C17_changed_exact: changed iff members, vector as a function id -> counter, epoch, "
                 "view timestamp or protocol version differ) - since commit 53b1085 the merged vector is compared with the vector before the prune; the two "
                 "witnesses on which the earlier code returned changed=false are kept as a regression Example against the earlier function and replayed on the "
                 "real code on every run. Version vector monotonicity is NOT unconditional: no member's entry is lowered under the explicit guard 'member count "
                 "within MaxVersionVectorEntries' (C17_vv_entry_monotone_partial; with 'every vector key a member' no entry at all, and the vector is the "
                 "order-independent pointwise maximum); the guard is shown necessary by a kernel-checked reachable witness (C17_vv_entry_monotone_refuted: "
                 "MaxVersionVectorEntries=1 with two members), replayed on the real code on every run and reported as known finding C17-vv-cap-truncation. A vector "
                 "key that is no member is dropped by the prune; that lowers no member's entry and is reported by changed. Also refuted with reachable witnesses: "
                 "commutativity on full member states (same incarnation, different Status), IsNewerThan transitivity without well-formedness (3-cycle with a "
                 "logical clock of 0), no-regression without well-formedness."),
        "design_ref": "DESIGN.md §4 C17",
        "note": ("Trusted: Coq kernel + vm_compute; ExtrOcamlBasic extraction (cross-checked by vm_compute on a sample each run); the harness; Go maps as finite "
                 "maps. Clone/aliasing and operand immutability are decided on the implementation only. The clause 'never lowers a member's version-vector entry' "
                 "holds only under the stated guard; the guard violation is reachable by configuration (MaxVersionVectorEntries < members) and is a recorded, "
                 "unrepaired finding. The clause 'changed is sound' holds unguarded since commit 53b1085."),
        "technique": "Coq proof (finite-map extensionality, induction over merge expressions and reachability) over a hand-written model + differential correspondence check against the Go code + implementation-side monitors",
    },
}
