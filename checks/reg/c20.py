"""C20 — scheduled messages fire as specified and die with their actor."""

COMPONENTS = {
    "sched": {
        "coq_run_module": "Timer.SchedRun",
        "accessors": {
            "internal/actor/xv_sched_verif.go": "acc/actor/xv_sched_verif.go",
        },
        "what": ("ctx.Scheduler() Once/Loop/Cron/Cancel/Clear/Exists + cleanup at the END of the stop sequence of a termination / restart "
                 "(calls made by the OnKill / child-OnKilled / own-OnKilled handlers included), with non-atomic firings (receivers in long handlers, "
                 "Tell goroutines suspended between go-quartz's pop and the Tell), on real ActorSystems, the real go-quartz scheduler and real time "
                 "(150 ms slot grid with 150 ms margins) vs the driver of Timer/SchedFlight.v over Timer/SchedModel.v; job keys vs Timer/SchedKey.v"),
        "timeout": {"quick": 600, "thorough": 3600},
    },
}

PROPERTIES = {
    "C20": {
        "components": ["sched"],
        "coq_files": ["Properties/C20.v", "Properties/C20_flight.v"],
        "rule": ("one case = one scenario on its own ActorSystem: 1-3 scripted actors (names from {a, a:b, b, x, y}; with references from {r, s, c, b:c} the "
                 "pairs (/a, b:c) and (/a:b, c) render the same string 'path:reference' - the collision fixed by 06e0030), rarely the empty reference; a third of the actors "
                 "spawn a child in every OnLaunch; ops with nominal times on a 150 ms slot grid: "
                 "scheduling calls (Once with delays 0/600/1200/1800 ms and the rejected -1500 ms, Loop 600/1200 ms and the rejected 0/-1500 ms, Cron: year-2099 expressions and a "
                 "mutation corpus whose validity bit is go-quartz's own ValidateCronExpression) on even slots in two "
                 "lanes, everything sensitive to firings (Cancel of known/unknown references, Clear, Exists, kill, restart by a panicking "
                 "handler under a restarting supervisor, invalid Cron, dumps of every actor's jobKeys and of the quartz queue through "
                 "accessors, the final observation) on odd slots, 150 ms away from every ideal firing instant; a key is scheduled at most "
                 "twice, the second time in the other lane (re-use of a live reference is rejected, re-use after the job is gone succeeds); receivers are the owner or another (possibly dead) actor. "
                 "EPISODES (a quarter of the odd-slot ops): a LONG HANDLER (the actor's mailbox goroutine waits in a closure for 2-6 slots while firings queue up behind it; at its end, inside the "
                 "handler, Cancel / Clear / Exists, or a Kill enqueued while it still runs, or it panics = restart); a HOLD (the actor's own logger - vivid.WithActorLogger - suspends the goroutine "
                 "go-quartz started for a firing at the 'scheduler trigger' line of Scheduler.tell, i.e. after the pop and before the Tell, for 2-6 slots, while the owner cancels / clears / is killed / restarted); "
                 "a STOP SEQUENCE whose handlers still call the scheduler (half of all kills and restarts: 1-3 Once / Loop / Cancel / Exists calls in the OnKill handler, the handler of the child's OnKilled, the own "
                 "OnKilled handler, with firing instants after the end of the sequence) and stop sequences that wait 300/600 ms for the child (the actor's jobs keep firing meanwhile, into dead letters when addressed to it). "
                 "Compared with the model (the driver of Timer/SchedFlight.v): every return value (also of the calls made inside handlers), Exists, every dump (the per-actor reference record and the go-quartz queue are located by reflection; a build of vivid that does not offer one of them is compared without it and info.internal_observations says so), and per scheduling call the number of deliveries and of dead letters "
                 "and the SLOT of every arrival. "
                 "A watchdog measures scheduling gaps (> 60 ms) and op lateness (> 50 ms), and a canary - a 30 ms Loop of the harness's own in the "
                 "same quartz scheduler, whose arrivals bound the lateness of every tested firing - must never be more than 75 ms apart: "
                 "a disturbed scenario is discarded and re-run, never judged. 19 directed scenarios (each examined weakness, rejected arguments, kill, restart, the same reference on the receiver of another actor's job, Cron corpus, many jobs) + 14 directed flight / stop-sequence "
                 "scenarios + seeded random ones; plus one "
                 "scenario in a child process that is suspended with SIGSTOP across the instant of a Once (compared with the atomic model's Stall); plus 800 job-key cases (quartz.NewJobKeyWithGroup / Equals on strings with "
                 "empty group, 'default', ':' and '::', and uniqueJobKey of ten real actors) against Timer/SchedKey.v. "
                 "non-trivial = at least one message was told and at least one Cancel/Clear/kill/restart/long handler happened; distinct = distinct input terms"),
        "modelled_not_verified": [
            "M8: go-quartz is third-party; its queue is modelled as a table keyed by the job key (group = owner path, name = reference; an empty group would become 'default', Timer/SchedKey.v, checked differentially), its execution loop per job (prompt while OTick, absent while OStall), its misfire rule (OutdatedThreshold 100 ms) as read from quartz/scheduler.go validateJob; cron parsing is a validity flag given with the op - in the correspondence runs the flag is the answer of go-quartz's own ValidateCronExpression for an expression of a mutation corpus - and a valid cron job never fires within the model's horizon",
            "M6: time is a virtual clock in ms; the correspondence runs use real time with 150 ms margins and discard runs in which a scheduling gap > 60 ms, an op later than 50 ms or a canary gap > 75 ms was measured",
            "a firing is two steps (Timer/SchedFlight.v): the pop at the instant and, at any later time, the arrival at the behaviour or the dead-letter stream (FLand); the goroutine's enqueue and the mailbox's dequeue are one step; that a Tell in flight eventually arrives (fair goroutine scheduling, a receiver that returns from its handlers) is not modelled - the theorems say 'in flight or arrived'",
            "the hold control of the harness relies on the Debug line 'scheduler trigger' at the beginning of Scheduler.tell (public logger API); without that line hold scenarios are left out (reported in info.hold_control), long-handler and stop-sequence scenarios do not need it",
            "M7: default references are fresh UUIDs; the model takes the reference as an operand",
            "jobKeys is only touched by its owner's goroutine (calls are made inside handlers; C01); ctx.Scheduler() used from foreign goroutines (the interface comment asks implementations to be thread-safe, jobKeys is an unlocked map) is outside the model - an observation of DESIGN 8.3, C10's territory",
            "the stop sequence: FStopping a (doKill: state killing, user messages for a become dead letters, nothing cleared), then the handlers of the sequence as ordinary ops of a, then ODied a / ORestarted a = killedHandler.cleanupScheduler (Clear) after the own OnKilled handler; during a restart the mailbox is paused, so nothing arrives for a inside the sequence (the harness's sequences are shorter than any firing distance unless they wait for a child - termination only)",
            "a dead actor performs no call (none of its handlers runs); a call through a retained context of a dead actor, and scheduler calls from OnRestarted / OnPrelaunch (their contexts do not expose the scheduler), are outside the model",
        ],
    },
}

META = {
    "C20": {
        "text": ("47 kernel-checked theorems. Part 1 (Properties/C20.v, 23): the Gallina model of the per-actor Scheduler on the go-quartz queue (virtual clock; job key = the pair "
                 "(owner path, reference); negative delays, non-positive intervals, an empty or still-queued reference are rejected and change nothing; jobKeys written after a "
                 "successful quartz ScheduleJob; Cancel/Clear delete by key; termination and restart = Clear; quartz's misfire rule), for ALL op sequences of Once/Loop/Cron/Cancel/Clear/Exists by any actors, terminations, restarts and clock steps: a Once is popped at most once and "
                 "never before t0+d; removed by its owner (Cancel, Clear, termination, restart) before the instant it is never popped (no delivery, no dead letter), and after such a removal "
                 "no job is popped any more; a Loop at t0+i, t0+2i, ... (an initial segment, complete while not removed); an invalid Cron returns the parse error and changes nothing; "
                 "Cancel of an unknown reference returns not-found and changes nothing; whatever is told carries the scheduled payload to the scheduled receiver; every queued job is "
                 "registered in its live owner's jobKeys, so termination/restart leave no job of the actor. 'Exactly once at t0+d' (C20_once) and 'exactly the instants t0+k*i' "
                 "(C20_loop) hold for every call that returned nil and is not removed by its owner, for all op sequences without a stall of the quartz loop; with a stall they are "
                 "REFUTED by witnesses that reproduce on the code (go-quartz drops a Once that is > 100 ms late and skips Loop firings: known finding, third-party rule). "
                 "Part 2 (Properties/C20_flight.v, 24): the firing is NOT atomic - the pop at the instant, then the Tell from a goroutine of its own, then the receiver's mailbox. For ALL step sequences of the "
                 "refined machine (any Tell in flight may arrive at any later time): its base is exactly the atomic model (so Part 1 is about the pops); every pop is in flight or has arrived exactly once; "
                 "a Once is never in flight twice and never arrives before t0+d; removed before its instant nothing ever arrives; not removed it is popped at t0+d and is then in flight or arrived, delivered unless the receiver is dead or stopping; "
                 "a Loop's arrivals and Tells in flight are together exactly one per interval; after Cancel / Clear / termination / restart NO message whose firing instant lies after the removal arrives and exactly the Tells in flight at the removal may still arrive "
                 "(C20_flight_removed) - 'nothing arrives after Cancel returned' and 'at most one Tell in flight per Loop' are REFUTED by witnesses that reproduce on the code (not violations of the property as stated: their firing instants precede the Cancel). "
                 "The stop sequence has phases: it begins (FStopping: nothing cleared, user messages for the actor become dead letters), its handlers (OnKill, the children's OnKilled, the own OnKilled) still call the scheduler - real calls, accepted and queued - "
                 "and it ENDS with Clear: for every step sequence and every such killing phase no job of the incarnation, whenever scheduled, fires at an instant after the termination (C20_stop_sequence) / restart (C20_restart_sequence); a Tell in flight at a restart is delivered to the new incarnation (observation). "
                 "The job key the code builds (NewJobKeyWithGroup(reference, path), empty group -> 'default') is the model's pair for every actor path and all strings, hence injective on actors (refuted only for the empty path, which no actor has). "
                 "The driver used by the correspondence check (long handlers, suspended Tell goroutines, stop sequences) is proved to be a scheduler of the general machine, and the atomic model to be its prompt schedule. "
                 "The earlier weaknesses (re-use of a live reference silently dropped, colliding keys through ':' in paths/references, negative delay never firing, non-positive interval "
                 "spinning the quartz loop) were repaired in /repo (06e0030, 9c4b505, 7fd453c) and the model follows the repaired code. Tied to the code on every run by whole-scenario "
                 "differential runs on real actor systems in real time."),
        "design_ref": "DESIGN.md §4 C20",
        "note": ("Trusted: Coq kernel + vm_compute; ExtrOcamlBasic extraction (cross-checked by vm_compute on a sample each run); the harness (slot grid, watchdog, bookkeeping of removals), "
                 "the flight controls (blocking closures, the gate logger), the add-only accessor file internal/actor/xv_sched_verif.go (it names no unexported identifier of vivid: the per-actor reference record and the go-quartz scheduler are located by reflection on the type of the fields, and an observation that cannot be located is projected out and reported, never a build failure); go-quartz as modelled (M8). Real-time runs cannot distinguish "
                 "instants closer than the margins; arrival times are compared at the resolution of the 150 ms slot."),
        "technique": "Coq proof (representation invariant + per-call tracking by induction over op sequences; refinement of the atomic model by a machine with in-flight Tells and stop-sequence phases, conservation invariant by permutation) over a hand-written model + differential correspondence check against the Go code in real time with controlled in-flight delays",
    },
}
