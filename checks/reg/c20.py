"""C20 — scheduled messages fire as specified and die with their actor."""

COMPONENTS = {
    "sched": {
        "coq_run_module": "Timer.SchedRun",
        "accessors": {
            "internal/actor/xv_sched_verif.go": "acc/actor/xv_sched_verif.go",
            "internal/scheduler/xv_c20keys_verif.go": "acc/scheduler/xv_c20keys_verif.go",
        },
        "what": ("ctx.Scheduler() Once/Loop/Cron/Cancel/Clear/Exists + cleanup on termination and restart, on real ActorSystems, "
                 "the real go-quartz scheduler and real time (150 ms slot grid with 150 ms margins) vs Timer/SchedModel.v"),
        "timeout": {"quick": 600, "thorough": 3600},
    },
}

PROPERTIES = {
    "C20": {
        "components": ["sched"],
        "rule": ("one case = one scenario on its own ActorSystem: 1-3 scripted actors (names from {a, a:b, b, x, y}; with references from {r, s, c, b:c} the "
                 "pairs (/a, b:c) and (/a:b, c) render the same string 'path:reference' - the collision fixed by 06e0030), rarely the empty reference; ops with nominal times on a 150 ms slot grid: "
                 "scheduling calls (Once with delays 0/600/1200/1800 ms and the rejected -1500 ms, Loop 600/1200 ms and the rejected 0/-1500 ms, Cron valid (year 2099)) on even slots in two "
                 "lanes, everything sensitive to firings (Cancel of known/unknown references, Clear, Exists, kill, restart by a panicking "
                 "handler under a restarting supervisor, invalid Cron, dumps of every actor's jobKeys and of the quartz queue through "
                 "accessors, the final observation) on odd slots, 150 ms away from every ideal firing instant; a key is scheduled at most "
                 "twice, the second time in the other lane (re-use of a live reference is rejected, re-use after the job is gone succeeds); receivers are the owner or another (possibly dead) actor. Compared with the "
                 "model: every return value, Exists, every dump, and per scheduling call the number of deliveries and of dead letters. "
                 "A watchdog measures scheduling gaps (> 60 ms) and op lateness (> 50 ms), and a canary - a 30 ms Loop of the harness's own in the "
                 "same quartz scheduler, whose arrivals bound the lateness of every tested firing - must never be more than 75 ms apart: "
                 "a disturbed scenario is discarded and re-run, never judged. 16 directed scenarios (each examined weakness, rejected arguments, kill, restart, Cron, many jobs) + seeded random ones; plus one "
                 "scenario in a child process that is suspended with SIGSTOP across the instant of a Once (compared with the model's Stall). "
                 "non-trivial = at least one message was told and at least one Cancel/Clear/kill/restart happened; distinct = distinct input terms"),
        "modelled_not_verified": [
            "M8: go-quartz is third-party; its queue is modelled as a table keyed by the job key (group = owner path, name = reference), its execution loop per job (prompt while OTick, absent while OStall), its misfire rule (OutdatedThreshold 100 ms) as read from quartz/scheduler.go validateJob; cron parsing is a validity flag given with the op and a valid cron job never fires within the model's horizon",
            "M6: time is a virtual clock in ms; the correspondence runs use real time with 150 ms margins and discard runs in which a scheduling gap > 60 ms, an op later than 50 ms or a canary gap > 75 ms was measured",
            "a firing is atomic in the model (the Tell happens at the firing instant); in the code the Tell is done by a goroutine quartz starts at the firing instant, so a message can be enqueued after a Cancel that followed the instant returned (examined case (e): measured as statistics only, not modelled)",
            "M7: default references are fresh UUIDs; the model takes the reference as an operand",
            "jobKeys is only touched by its owner's goroutine (calls are made inside handlers; C01); system.Scheduler() used from foreign goroutines is outside the model",
            "termination and restart are the atomic steps ODied / ORestarted (= Clear, then dead / alive); the few instructions between removeActorContext and cleanupScheduler in killed_handler.go are not a separate step",
            "a dead actor performs no call (none of its handlers runs); a call through a retained context of a dead actor is outside the model",
        ],
    },
}

META = {
    "C20": {
        "text": ("23 kernel-checked theorems about the Gallina model of the per-actor Scheduler on the go-quartz queue (virtual clock; job key = the pair "
                 "(owner path, reference); negative delays, non-positive intervals, an empty or still-queued reference are rejected and change nothing; jobKeys written after a "
                 "successful quartz ScheduleJob; Cancel/Clear delete by key; termination and restart = Clear; quartz's misfire rule), for ALL op sequences of Once/Loop/Cron/Cancel/Clear/Exists by any actors, terminations, restarts and clock steps: a Once is told at most once and "
                 "never before t0+d; removed by its owner (Cancel, Clear, termination, restart) before the instant it is never told (no delivery, no dead letter), and after such a removal "
                 "no job tells anything any more; a Loop tells at t0+i, t0+2i, ... (an initial segment, complete while not removed); an invalid Cron returns the parse error and changes nothing; "
                 "Cancel of an unknown reference returns not-found and changes nothing; whatever is told carries the scheduled payload to the scheduled receiver; every queued job is "
                 "registered in its live owner's jobKeys, so termination/restart leave no job of the actor and nothing is told on its behalf afterwards. 'Delivered exactly once at t0+d' (C20_once) and 'exactly the instants t0+k*i' "
                 "(C20_loop) hold for every call that returned nil and is not removed by its owner, for all op sequences without a stall of the quartz loop; with a stall they are "
                 "REFUTED by witnesses that reproduce on the code (go-quartz drops a Once that is > 100 ms late and skips Loop firings: known finding, third-party rule). The earlier "
                 "weaknesses (re-use of a live reference silently dropped, colliding keys through ':' in paths/references, negative delay never firing, non-positive interval "
                 "spinning the quartz loop) were repaired in /repo (06e0030, 9c4b505, 7fd453c) and the model follows the repaired code. Tied to the code on every run by whole-scenario "
                 "differential runs on real actor systems in real time."),
        "design_ref": "DESIGN.md §4 C20",
        "note": ("Trusted: Coq kernel + vm_compute; ExtrOcamlBasic extraction (cross-checked by vm_compute on a sample each run); the harness (slot grid, watchdog, bookkeeping of removals), "
                 "the add-only accessors internal/actor/xv_sched_verif.go and internal/scheduler/xv_c20keys_verif.go; go-quartz as modelled (M8). Real-time runs cannot distinguish "
                 "instants closer than the margins."),
        "technique": "Coq proof (representation invariant + per-call tracking by induction over op sequences) over a hand-written model + differential correspondence check against the Go code in real time",
    },
}
