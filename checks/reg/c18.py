"""C18 — gossip convergence (partial).

Importing this module regenerates the clock-virtualised overlay copies of internal/cluster from the tree
under test (bin/gen_gossip_clock: every `time.Now()` becomes the hook `xvNow()` of the accessor file), so
that the `gossip` harness drives the real NodeActor under a virtual clock.  The copies live in
build/gossip_clock<tag>/ and are part of the overlay of the `gossip` component only.
"""
import hashlib
import importlib.machinery
import importlib.util
import os

_VERIF = os.path.dirname(os.path.dirname(os.path.dirname(os.path.abspath(__file__))))
_REPO = os.environ.get("VERIF_REPO", "/repo")


def _sweep(build):
    """remove the overlay copies generated for scratch trees (VERIF_REPO) that no longer exist"""
    import shutil
    for d in os.listdir(build):
        if not d.startswith("gossip_clock_"):
            continue
        marker = os.path.join(build, d, ".repo")
        try:
            repo = open(marker).read().strip()
        except OSError:
            continue
        if not os.path.isdir(repo):
            shutil.rmtree(os.path.join(build, d), ignore_errors=True)


def _clock_overlay():
    try:
        p = os.path.join(_VERIF, "bin", "gen_gossip_clock")
        loader = importlib.machinery.SourceFileLoader("xv_gen_gossip_clock", p)
        spec = importlib.util.spec_from_loader("xv_gen_gossip_clock", loader)
        mod = importlib.util.module_from_spec(spec)
        loader.exec_module(mod)
        tag = "" if _REPO == "/repo" else "_" + hashlib.sha256(_REPO.encode()).hexdigest()[:8]
        out = os.path.join(_VERIF, "build", "gossip_clock" + tag)
        res = mod.generate(_REPO, out)
        if tag:
            with open(os.path.join(out, ".repo"), "w") as fh:
                fh.write(_REPO)
        _sweep(os.path.join(_VERIF, "build"))
        return res
    except Exception:  # never break the import of the registry; a missing overlay shows up as a build failure of `gossip`
        return {}


_ACC = {
    "internal/cluster/xv_acc_verif.go": "acc/cluster/xv_acc_verif.go",
    "internal/cluster/xv_gossip_verif.go": "acc/cluster/xv_gossip_verif.go",
}
_ACC.update(_clock_overlay())   # absolute paths: os.path.join(HARNESS, abs) = abs

COMPONENTS = {
    "gossip": {
        "coq_run_module": "Cluster.GossipRun",
        "accessors": _ACC,
        "what": ("REAL cluster.NodeActor instances driven through a harness-implemented vivid.ActorContext - no networking, no timers, no "
                 "wall clock: every Tell(GossipMessage) lands in a simulated network, every Ask (JoinRequest, GetViewRequest) is a synchronous "
                 "call into the target NodeActor or a timeout, every Scheduler registration is recorded and fired only by the schedule, "
                 "time.Now() inside internal/cluster is a virtual clock (overlay copies generated at check time by bin/gen_gossip_clock) - "
                 "in lock-step with Cluster/Gossip.v; property-level monitors on the real code. The per-peer last-vector table of the NodeActor is "
                 "located by reflection (by name, then by type: a map from address strings to VersionVector, possibly inside a struct the actor "
                 "holds); when it cannot be found that one observation is reported UNAVAILABLE and projected out on both sides, everything "
                 "else stays compared. A scripted step that the implementation's state does not allow (witness replay) is a named monitor "
                 "hit (witness-step-missing), a panic inside a scenario is harness:panic: neither aborts the run"),
        "timeout": {"quick": 600, "thorough": 3600},
    },
}

PROPERTIES = {
    "C18": {
        "components": ["gossip"],
        "rule": ("one case = one whole scenario: the executed schedule (process starts with the observed order and outcome of the join Asks, join "
                 "retries, gossip ticks, failure-detection ticks, delivery - with the member MemberByAddress picked - or loss of one packet, crash, "
                 "restart under the same or a fresh NodeID, leave, force-down; each with its virtual clock reading) and, per step, what the real "
                 "NodeActors did: published events (members/view/leader/quorum/DC-health/leave, lists sorted), GossipMessages sent (source, "
                 "destination, version vector, member count) and the FULL state of every touched node (own NodeState, every member with "
                 "id/address/generation/timestamp/status/logical clock/LastSeen, counts, epoch, version vector, last vector heard per address, "
                 "registered timers, publisher memory, ComputeLeaderAddr). The model replays the schedule and must print the same. Generated "
                 "scenarios: 2-7 nodes, 1-3 seeds that are not the smallest addresses, permuted seed lists, a self-seeded island, random start "
                 "order, 0/10/30% loss of packets and Asks, pairwise partitions toggled during the fault phase, crashes and restarts of non-seeds, "
                 "leaves; then a fault-free phase of fair rounds with per-node timer phases and random delivery orders; classes: join (failure "
                 "detection off, no stop), islands (off, no stop: 2-3 self-seeded islands with 0-2 members each, introduced to each other only by "
                 "bridge nodes that list the seeds of two islands - they meet only because a node keeps gossiping to a configured seed that is "
                 "no member of its view; instance 0 is the canonical A=[A] B=[B] C=[A,B] D=[B] without any fault), seedsplit (off, no stop: 2-3 "
                 "seeds that all list all seeds, each with 0-2 joiners, all sides partitioned from each other while they start, everything sent "
                 "across the partition lost, healed when the faults stop); join / islands / seedsplit are CLEAN histories in the sense of "
                 "Cluster/GossipClean.v, on which convergence is a theorem of the model, so any end-state discrepancy there additionally raises "
                 "clean-history-not-converged and can never match a known finding; restart (off, crash + restart under the same id), leave (off), fd (timeout 300 with "
                 "SuspectConfirmDuration 0 / 150 / 100000; every fifth scenario with wall-clock sized numbers: 1.7e18 ns, seconds); 32 short "
                 "scenarios small enough for the in-Coq vm_compute cross-check; plus the kernel-checked executions of Properties/C18.v - the "
                 "refutation witnesses (a) (b) (c) (d) (e) (c2) (g), the islands instance (i) of the hypotheses of the convergence theorem (the "
                 "implementation must then show the theorem's conclusion: monitor proved-instance-fails otherwise) and the unconnected-seeds "
                 "configuration (h, lock-step only) - whose executed schedule must equal the model's schedule step by step. non-trivial = more "
                 "than 10 steps; distinct = distinct schedules"),
        "modelled_not_verified": [
            "each handler of the NodeActor runs to completion before the next message (one mailbox goroutine, C01); a synchronous Ask into the seed is one atomic step of the schedule (the real asker blocks on the future while the seed handles the request)",
            "the remoting transport is the identity on message values and loses nothing unless the schedule drops the packet or fails the Ask (wire round-trip of the cluster messages is C12; delivery over a healthy link is C11); packets may be reordered arbitrarily (a superset of per-connection FIFO)",
            "real-time fairness: the fault-free phase is a sequence of fair rounds by definition (every registered timer of every node fires once per round, everything in flight is delivered before the round ends); that the quartz scheduler and the Go runtime provide this is not shown (C20)",
            "rate limiters (join, gossip) are off = always allow, which is exactly what the code does with the default rate 0; a configured rate is outside the model",
            "configuration outside the model: datacenter / region / rack labels, SeedsByDC, SeedsResolver, cross-DC gossip round, join secret, allow lists, cluster name, protocol-version window, MaxClockSkew, PreferLocal / PreferRemote, MaxVersionVectorEntries, the two DC-based quorum strategies; MaxDiscoveryTargetsPerTick >= number of candidates (always true for <= 7 nodes with the default 20), so target selection is the full candidate set and rand.Shuffle only permutes the Tells of one broadcast (the model emits them sorted)",
            "time.Now() is the `now` input of a step (the overlay copies of internal/cluster read the harness clock); utils.NormalizeAddress is the identity on the addresses used (127.0.0.1:port)",
            "where the code iterates a Go map and the result depends on the order (ClusterView.MemberByAddress with two members of one address = a process restarted under a fresh NodeID) the pick is an input of the step, observed on the implementation",
            "ForceMemberDown of a node's own id at that node followed by a failure-detection tick that removes ALL remaining members is outside the model: the view becomes empty, recomputeCounts then skips the version-vector prune, and which entries survive depends on the Go map iteration order in RunDetection (observed on the implementation; the harness generates a self force-down only with a timeout that cannot expire)",
            "Context.Leave (the LeaveRequest comes from a local watcher actor and the process stops afterwards) is one step; LeaveBroadcastDelay / LeaveBroadcastRounds are not read by the current node_actor.go",
            "metrics are disabled (MetricsEnabled() = false); log output is discarded",
            "the convergence theorems (section 5 of Properties/C18.v) hold for CLEAN histories only: FailureDetectionTimeout <= 0 everywhere, every NodeID used by one process, no crash / leave / force-down, every accepted JoinRequest accepted by a node that has itself joined; at most 65535 nodes (beyond it the version vector is truncated: C17's finding) and fewer than 2^61 steps (no counter at 2^63-1, where Increment fails and the error is ignored); a lost join Ask is a lost REQUEST (a JoinResponse lost after the seed accepted the join is outside the model)",
            "undecided class: a node whose own join is still pending (it holds a view learned by gossip) ACCEPTS a JoinRequest - it then increments a version-vector entry for its own id, which is no member of its view; recomputeCounts prunes the entry at the next change and the counter value is used a second time. No refutation was found and the invariant of the convergence proof (vector order = membership order) does not hold on such histories",
        ],
    },
}

META = {
    "C18": {
        "text": ("PARTIAL, DECIDED BY HISTORY CLASS. 31 kernel-checked theorems. PROVED for every clean history (failure detection off, "
                 "every NodeID used once, no crash / leave / force-down, joins accepted by joined nodes; any number of nodes up to the 65535-entry "
                 "cap, any join order, seed lists, loss, delivery order, retries): in every reachable world the order of the version vectors is "
                 "the order of the memberships - for node views and GossipMessages in flight alike - so the suppression of shouldSendGossipTo "
                 "is sound; ONE fair round after everybody has joined makes all views equal provided the seed lists connect the nodes (self-seeded "
                 "islands meet because target selection keeps gossiping to configured seeds that are no members of the view), exactly one node "
                 "has IAmLeader, and in all later fair rounds no membership / view / leader change is announced and no membership or vector "
                 "changes (C18_clean_history_converges; in the shape of the unconditional statement: it holds with L = 2 rounds, "
                 "C18_unconditional_on_clean_histories). REFUTED outside, one witness per excluded class: failure detection on -> (a) (c) (f); "
                 "crash + restart -> (c2) (e) (e2); leave -> (d); removal -> (b); a crash that nothing detects -> (g); seed lists that do not "
                 "connect -> (h, a configuration, not a defect). UNDECIDED: histories in which a node whose own join is pending accepts a "
                 "JoinRequest. Also: exact thresholds of the failure detector; the default quorum rule holds iff at least one member is Up. "
                 "THE EARLIER SUMMARY: 20 kernel-checked theorems about a Gallina model of the NodeActor (join with generation bump, join request, gossip "
                 "merge with LastSeen refresh, gossip round with shouldSendGossipTo, failure detection with suspect/confirm/remove, quorum "
                 "recovery, leave, force-down, leader computation, event publisher) and of a world of such nodes with a lossy reordering network, "
                 "crashes, restarts and explicit timers. TRUE for all inputs: equal sets of Up members give the same leader (the least address) "
                 "and exactly one IAmLeader; handleGossip acts on the membership as the join of C17, hence - well-formedness being an invariant of every world reachable by any history - after ANY round of gossip ticks / "
                 "deliveries / losses in which every node's view reached every other (directly or transitively) all memberships equal the join "
                 "of the initial ones; a gossip round sends to a target exactly when nothing was heard from it yet or the own vector is After / "
                 "Concurrent to its last one - Equal suppresses it - and publishes nothing; with failure detection off a quiescent world stays "
                 "as it is for ever. FALSE (each refuted by a concrete fair execution checked by vm_compute AND replayed on the real NodeActors "
                 "on every run): the unconditional property (not after 40 fair rounds); (a) healthy members are suspected / removed / re-added "
                 "for ever because suppressed gossip never refreshes LastSeen; (b) a removed member is resurrected by any peer that still lists "
                 "it; (c) a Suspect flip is neither propagated nor cleared once vectors are equal - two nodes both IAmLeader; (d) a leave is "
                 "never announced (Leaving is set on the actor's own state, the broadcast view still says Up) - the left node stays listed and "
                 "is even computed as leader; (e) a node restarted under its NodeID re-derives an incarnation number its predecessor already "
                 "had and the stale entry is never replaced; (e2) a restart under a fresh NodeID (the default) leaves two members with one address "
                 "and MemberByAddress refreshes whichever the map iteration yields (model-level witness, observed on the code in generated "
                 "scenarios); (f) members learned through a merge carry the sender's own stale LastSeen."),
        "design_ref": "DESIGN.md §4 C18, §5 (7)",
        "note": ("Trusted: Coq kernel + vm_compute; ExtrOcamlBasic extraction (cross-checked by vm_compute on the short scenarios each run); the "
                 "harness (its ActorContext, simulated network and clock, the lexical time.Now rewrite of bin/gen_gossip_clock); the fairness "
                 "of the real scheduler. Liveness is proved only in the conditional form above. The monitors fire on the unchanged tree for the "
                 "recorded defects; every hit carries a cause established from the run's history, and a hit without such a cause is a VIOLATION."),
        "technique": "Coq proof (ghost log of local membership changes + invariant 'membership = what the version vector selects from the log', coverage invariant of a fair round, graph argument over the seed lists; invariants over an annotated world, finite-map extensionality, reflection of boolean checkers) over a hand-written model + lock-step correspondence check against the real NodeActor under a simulated runtime + implementation-side monitors with cause attribution",
    },
}
