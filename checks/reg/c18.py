"""C18 — gossip convergence (partial).

Importing this module regenerates the clock-virtualised overlay copies of internal/cluster from the tree
under test (bin/gen_gossip_clock: every `time.Now()` becomes the hook `xvNow()` of the accessor file), so
that the `gossip` harness drives the real NodeActor under a virtual clock.  The copies live in
build/gossip_clock<tag>/ and are part of the overlay of the `gossip` component only.
"""
import hashlib
import importlib.machinery
import importlib.util
import os

_VERIF = os.path.dirname(os.path.dirname(os.path.dirname(os.path.abspath(__file__))))
_REPO = os.environ.get("VERIF_REPO", "/repo")


def _clock_overlay():
    try:
        p = os.path.join(_VERIF, "bin", "gen_gossip_clock")
        loader = importlib.machinery.SourceFileLoader("xv_gen_gossip_clock", p)
        spec = importlib.util.spec_from_loader("xv_gen_gossip_clock", loader)
        mod = importlib.util.module_from_spec(spec)
        loader.exec_module(mod)
        tag = "" if _REPO == "/repo" else "_" + hashlib.sha256(_REPO.encode()).hexdigest()[:8]
        return mod.generate(_REPO, os.path.join(_VERIF, "build", "gossip_clock" + tag))
    except Exception:  # never break the import of the registry; a missing overlay shows up as a build failure of `gossip`
        return {}


_ACC = {
    "internal/cluster/xv_acc_verif.go": "acc/cluster/xv_acc_verif.go",
    "internal/cluster/xv_gossip_verif.go": "acc/cluster/xv_gossip_verif.go",
}
_ACC.update(_clock_overlay())   # absolute paths: os.path.join(HARNESS, abs) = abs

COMPONENTS = {
    "gossip": {
        "coq_run_module": "Cluster.GossipRun",
        "accessors": _ACC,
        "what": ("real cluster.NodeActor instances driven through a harness ActorContext (simulated network, synchronous Ask, explicit "
                 "timer ticks, virtual clock) in lock-step with Cluster/Gossip.v; property-level monitors on the real code"),
        "timeout": {"quick": 600, "thorough": 3600},
    },
}

PROPERTIES = {
    "C18": {
        "components": ["gossip"],
        "rule": "TODO",
        "modelled_not_verified": [],
    },
}

META = {
    "C18": {
        "text": "TODO",
        "design_ref": "DESIGN.md §4 C18",
        "note": "TODO",
        "technique": "Coq proof over a hand-written model + lock-step correspondence check against the Go code + implementation-side monitors",
    },
}
